package c12

import (
	"encoding/json"
	"fmt"
	"slices"
	"strings"
	"testing"

	"github.com/emirpasic/gods/v2/lists/arraylist"
	"github.com/emirpasic/gods/v2/lists/doublylinkedlist"
	"github.com/emirpasic/gods/v2/lists/singlylinkedlist"
	"github.com/emirpasic/gods/v2/maps/hashmap"
	"github.com/emirpasic/gods/v2/maps/linkedhashmap"
	"github.com/emirpasic/gods/v2/maps/treemap"
	"github.com/emirpasic/gods/v2/queues/arrayqueue"
	"github.com/emirpasic/gods/v2/queues/circularbuffer"
	"github.com/emirpasic/gods/v2/queues/linkedlistqueue"
	"github.com/emirpasic/gods/v2/sets/hashset"
	"github.com/emirpasic/gods/v2/sets/linkedhashset"
	"pgregory.net/rapid"

	"verif/harness/internal/pbt"
	"verif/harness/internal/via"
)

// Containers of interface-typed elements (T = any): what a document "denotes" is
// what encoding/json itself decodes it to in a fresh []any / map[string]any —
// numbers are float64 (so 1, 1.0 and 1e0 are ONE element of a set), strings,
// booleans and null are themselves.  Scalar documents only (a nested array would be
// an uncomparable element).

type AnyCase struct {
	Kind  string   `json:"kind"`
	Cap   int      `json:"cap,omitempty"`
	Prior []string `json:"prior"` // JSON scalars added beforehand
	Doc   []string `json:"doc"`   // JSON scalars of the document (for maps: values of the keys k0, k1, k0, ...)
	After []string `json:"after"` // JSON scalars added / probed afterwards
}

var anyScalars = []string{`1`, `1.0`, `1e0`, `2`, `-0`, `0`, `"x"`, `""`, `"1"`, `null`, `true`, `false`, `2.5`, `1e2`, `100`, `9007199254740993`, `"null"`}

func scalar(s string) any {
	var v any
	_ = json.Unmarshal([]byte(s), &v)
	return v
}

type anyBox struct {
	in     via.In
	add    func(any)
	values func() []any
	has    func(any) bool
	size   func() int
	set    bool // deduplicates
	order  bool // Values() order is determined
	keyed  bool
	get    func(string) (any, bool)
	keys   func() []string
}

func buildAny(c AnyCase) anyBox {
	switch c.Kind {
	case "arraylist":
		l := arraylist.New[any]()
		return anyBox{in: l, add: func(x any) { l.Add(x) }, values: l.Values, has: func(x any) bool { return l.Contains(x) }, size: l.Size, order: true}
	case "singlylinkedlist":
		l := singlylinkedlist.New[any]()
		return anyBox{in: l, add: func(x any) { l.Add(x) }, values: l.Values, has: func(x any) bool { return l.Contains(x) }, size: l.Size, order: true}
	case "doublylinkedlist":
		l := doublylinkedlist.New[any]()
		return anyBox{in: l, add: func(x any) { l.Add(x) }, values: l.Values, has: func(x any) bool { return l.Contains(x) }, size: l.Size, order: true}
	case "arrayqueue":
		q := arrayqueue.New[any]()
		return anyBox{in: q, add: q.Enqueue, values: q.Values, size: q.Size, order: true}
	case "linkedlistqueue":
		q := linkedlistqueue.New[any]()
		return anyBox{in: q, add: q.Enqueue, values: q.Values, size: q.Size, order: true}
	case "circularbuffer":
		q := circularbuffer.New[any](c.Cap)
		return anyBox{in: q, add: q.Enqueue, values: q.Values, size: q.Size, order: true}
	case "hashset":
		s := hashset.New[any]()
		return anyBox{in: s, add: func(x any) { s.Add(x) }, values: s.Values, has: func(x any) bool { return s.Contains(x) }, size: s.Size, set: true}
	case "linkedhashset":
		s := linkedhashset.New[any]()
		return anyBox{in: s, add: func(x any) { s.Add(x) }, values: s.Values, has: func(x any) bool { return s.Contains(x) }, size: s.Size, set: true, order: true}
	case "hashmap":
		m := hashmap.New[string, any]()
		return anyBox{in: m, keyed: true, size: m.Size, get: m.Get, keys: m.Keys, values: m.Values}
	case "linkedhashmap":
		m := linkedhashmap.New[string, any]()
		return anyBox{in: m, keyed: true, size: m.Size, get: m.Get, keys: m.Keys, values: m.Values, order: true}
	case "treemap":
		m := treemap.New[string, any]()
		return anyBox{in: m, keyed: true, size: m.Size, get: m.Get, keys: m.Keys, values: m.Values, order: true}
	}
	panic("unknown kind " + c.Kind)
}

var anyKinds = []string{"arraylist", "singlylinkedlist", "doublylinkedlist", "arrayqueue", "linkedlistqueue", "circularbuffer", "hashset", "linkedhashset", "hashmap", "linkedhashmap", "treemap"}

func show(xs []any) string {
	var ps []string
	for _, x := range xs {
		ps = append(ps, fmt.Sprintf("%T(%v)", x, x))
	}
	return "[" + strings.Join(ps, " ") + "]"
}

func checkAny(c AnyCase) (pbt.Info, error) {
	var info pbt.Info
	b := buildAny(c)
	if b.keyed {
		doc := "{"
		want := map[string]any{}
		var order []string
		for i, s := range c.Doc {
			k := fmt.Sprintf("k%d", i%3)
			if i > 0 {
				doc += ","
			}
			doc += fmt.Sprintf("%q:%s", k, s)
			if _, ok := want[k]; !ok {
				order = append(order, k)
			}
			want[k] = scalar(s)
		}
		doc += "}"
		if err := via.Auto(b.in, []byte(doc)); err != nil {
			return info, fmt.Errorf("%s[string,any]: %s(%s) failed: %v", c.Kind, via.AutoName([]byte(doc)), doc, err)
		}
		if b.size() != len(want) {
			return info, fmt.Errorf("%s[string,any]: after loading %s Size()=%d, the document denotes %d keys", c.Kind, doc, b.size(), len(want))
		}
		for k, w := range want {
			if got, ok := b.get(k); !ok || got != w {
				return info, fmt.Errorf("%s[string,any]: after loading %s Get(%q)=(%T(%v),%v), the document denotes %T(%v)", c.Kind, doc, k, got, got, ok, w, w)
			}
		}
		info.NonTrivial = len(want) >= 2
		return info, nil
	}
	for _, s := range c.Prior {
		b.add(scalar(s))
	}
	doc := "[" + strings.Join(c.Doc, ",") + "]"
	var ref []any
	if err := json.Unmarshal([]byte(doc), &ref); err != nil {
		return info, fmt.Errorf("bad case document %s", doc)
	}
	if err := via.Auto(b.in, []byte(doc)); err != nil {
		return info, fmt.Errorf("%s[any]: %s(%s) failed: %v", c.Kind, via.AutoName([]byte(doc)), doc, err)
	}
	want := ref
	if b.set {
		want = nil
		for _, x := range ref {
			if !slices.Contains(want, x) {
				want = append(want, x)
			}
		}
	}
	if c.Kind == "circularbuffer" && len(want) > c.Cap {
		want = want[len(want)-c.Cap:]
	}
	verify := func(when string) error {
		got := b.values()
		if len(got) != len(want) || b.size() != len(want) {
			return fmt.Errorf("%s[any]: %s %s holds %s (Size %d), the document denotes %s", c.Kind, when, doc, show(got), b.size(), show(want))
		}
		if b.order {
			if !slices.Equal(got, want) {
				return fmt.Errorf("%s[any]: %s %s holds %s, the document denotes %s", c.Kind, when, doc, show(got), show(want))
			}
		} else {
			for _, w := range want {
				if !slices.Contains(got, w) {
					return fmt.Errorf("%s[any]: %s %s holds %s, which lacks %T(%v)", c.Kind, when, doc, show(got), w, w)
				}
			}
		}
		if b.has != nil {
			for _, w := range want {
				if !b.has(w) {
					return fmt.Errorf("%s[any]: %s %s Contains(%T(%v)) = false although the document denotes it", c.Kind, when, doc, w, w)
				}
			}
		}
		return nil
	}
	if err := verify("after loading"); err != nil {
		return info, err
	}
	// the container stays sound: further additions behave as on the denoted content
	for _, s := range c.After {
		x := scalar(s)
		b.add(x)
		switch {
		case b.set && slices.Contains(want, x):
		case c.Kind == "circularbuffer" && len(want) == c.Cap:
			want = append(slices.Clone(want[1:]), x)
		default:
			want = append(slices.Clone(want), x)
		}
		if err := verify(fmt.Sprintf("after loading and adding %T(%v) to", x, x)); err != nil {
			return info, err
		}
	}
	info.NonTrivial = len(ref) >= 2 && len(c.Prior) > 0
	return info, nil
}

func TestAnyElements(t *testing.T) {
	for _, kind := range anyKinds {
		kind := kind
		pbt.Run(t, pbt.Target[AnyCase]{Name: kind + "/any-elements", Checks: 1500, Check: checkAny, Gen: func(t *rapid.T) AnyCase {
			sc := rapid.SampledFrom(anyScalars)
			c := AnyCase{Kind: kind}
			if kind == "circularbuffer" {
				c.Cap = rapid.IntRange(1, 5).Draw(t, "cap")
			}
			c.Prior = rapid.SliceOfN(sc, 0, 4).Draw(t, "prior")
			c.Doc = rapid.SliceOfN(sc, 0, 7).Draw(t, "doc")
			c.After = rapid.SliceOfN(sc, 0, 3).Draw(t, "after")
			return c
		}})
	}
}
