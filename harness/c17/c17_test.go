// C17 — every operation returns normally and silently for every argument.
package c17

import (
	"encoding/json"
	"fmt"
	"os"
	"path/filepath"
	"regexp"
	"strings"
	"sync/atomic"
	"testing"
	"time"

	"pgregory.net/rapid"

	"verif/harness/internal/capture"
	"verif/harness/internal/pbt"
	"verif/harness/internal/refl"
)

type Case struct {
	Cfg   refl.Cfg    `json:"cfg"`
	Build []refl.Step `json:"build,omitempty"` // structure-building calls first (adders and removers only)
	Steps []refl.Step `json:"steps"`           // then calls over every exported method
}

var hexRE = regexp.MustCompile(`0x[0-9a-f]+`)

// log-package timestamps: the message of a failing case must not depend on the clock
var stampRE = regexp.MustCompile(`\d{4}/\d{2}/\d{2} \d{2}:\d{2}:\d{2}(\.\d+)?`)

var (
	cap_      *capture.Capture
	caseStart atomic.Int64 // unix nanos of the running case, 0 when idle
	curFile   *os.File
	curTarget atomic.Value
)

const watchdogLimit = 60 * time.Second // >= 10^6 x the expected microseconds of a case

func TestMain(m *testing.M) {
	// the in-flight case is left behind for the driver if the process dies or hangs
	if dir := os.Getenv("VERIF_WORK"); dir != "" {
		curFile, _ = os.Create(filepath.Join(dir, "current-case.json"))
	}
	go func() {
		for {
			time.Sleep(2 * time.Second)
			if s := caseStart.Load(); s != 0 && time.Since(time.Unix(0, s)) > watchdogLimit {
				if cap_ != nil {
					cap_.Stop()
				}
				fmt.Println("WATCHDOG-EXPIRED: a single case has been running for more than", watchdogLimit)
				pbt.Flush()
				os.Exit(3)
			}
		}
	}()
	var err error
	if cap_, err = capture.Start(); err != nil {
		fmt.Println("cannot capture fds:", err)
		os.Exit(2)
	}
	pbt.MainWith(m, "C17", func() {
		cap_.Stop()
		if curFile != nil {
			name := curFile.Name()
			curFile.Close()
			os.Remove(name)
		}
	})
}

func before(target string) func([]byte) {
	return func(caseJSON []byte) {
		if curFile == nil {
			return
		}
		rf, _ := json.Marshal(pbt.ReplayFile{Property: "C17", Target: target, Error: "the test process died or hung while running this case", Case: caseJSON})
		_ = curFile.Truncate(0)
		_, _ = curFile.WriteAt(rf, 0)
	}
}

var builders = map[string]bool{"Add": true, "Append": true, "Prepend": true, "Insert": true, "Put": true, "Push": true, "Enqueue": true,
	"Remove": true, "Pop": true, "Dequeue": true}

var adders = map[string]bool{"Add": true, "Append": true, "Prepend": true, "Put": true, "Push": true, "Enqueue": true}

func check(c Case) (pbt.Info, error) {
	var info pbt.Info
	caseStart.Store(time.Now().UnixNano())
	defer caseStart.Store(0)
	sizeBefore := cap_.Size()
	r := refl.NewRunner(c.Cfg)
	flags := map[string]bool{}
	all := append(append([]refl.Step(nil), c.Build...), c.Steps...)
	for i, s := range all {
		res := r.Do(s)
		if !res.Called {
			pbt.AddToSet("skipped calls (kind.method: reason)", c.Cfg.Kind+"."+s.M+": "+res.Why)
			continue
		}
		pbt.AddToSet("methods exercised (kind|method)", c.Cfg.Kind+"|"+s.M)
		for _, l := range res.ItLog { // entries are "Name" or "Name=result"
			name, _, _ := strings.Cut(l, "=")
			pbt.AddToSet("iterator methods exercised (kind|method)", c.Cfg.Kind+"|"+name)
		}
		for _, f := range res.Flags {
			if f == "on-empty" && adders[s.M] {
				continue // adding to an empty container is the ordinary case
			}
			flags[f] = true
		}
		if now := cap_.Size(); now != sizeBefore {
			// addresses in the text vary between runs; rapid's shrinker needs a deterministic message
			text := stampRE.ReplaceAllString(hexRE.ReplaceAllString(cap_.Tail(sizeBefore), "0x?"), "<time>")
			return info, fmt.Errorf("%s step %d %s wrote to stdout/stderr: %q", c.Cfg.Kind, i, s.M, text)
		}
	}
	for f := range flags {
		info.Label(f)
	}
	info.NonTrivial = len(flags) > 0
	return info, nil
}

func gen(kind string) func(t *rapid.T) Case { return genWith(kind, false) }

func genWith(kind string, float bool) func(t *rapid.T) Case {
	if float {
		return genElem(kind, "float")
	}
	return genElem(kind, "")
}

// genElem: elem is "" (int), "float", "any" (an interface element type: nil,
// pointers, errors, mixed dynamic types) or "uint8" (a named unsigned type).
func genElem(kind, elem string) func(t *rapid.T) Case {
	return func(t *rapid.T) Case {
		c := Case{Cfg: refl.GenCfg(t, kind)}
		switch elem {
		case "float":
			c.Cfg = refl.GenCfgFloat(t, kind)
		case "any", "uint8":
			c.Cfg = refl.GenCfgElem(t, kind, elem)
		}
		// every exported method, the structure-building ones listed three more times so
		// that rarely reached shapes (deep trees, wrapped rings, long lists) are common
		var methods []string
		for _, m := range refl.Methods(c.Cfg) {
			methods = append(methods, m)
			if builders[m] {
				methods = append(methods, m, m, m)
			}
		}
		// a building phase made of adders and removers only, so that deep trees, long
		// lists and wrapped rings exist before the wild calls start
		var build []string
		for _, m := range refl.Methods(c.Cfg) {
			if builders[m] {
				build = append(build, m)
				if adders[m] {
					build = append(build, m)
				}
			}
		}
		if len(build) > 0 && rapid.IntRange(0, 4).Draw(t, "build-phase") != 0 {
			chunks := 2
			if rapid.IntRange(0, 7).Draw(t, "big-build") == 0 {
				chunks = 9 // dozens to hundreds of elements
			}
			c.Build = refl.GenStepsFor(t, c.Cfg.Kind, build, chunks, 14)
		}
		c.Steps = refl.GenStepsFor(t, c.Cfg.Kind, methods, 3, 12)
		return c
	}
}

// ladder: value counts of rare huge variadic calls and repeat counts, past the sizes
// at which an implementation may switch strategy (512, 1024, 2048, 4096, 8192; the
// thorough tier rarely also 65536 and 262144).
func ladder() []int {
	l := []int{513, 1025, 2049, 4097, 8193}
	if pbt.Thorough() {
		for i := 0; i < 3; i++ {
			l = append(l, l[:5]...)
		}
		l = append(l, 65537, 262145)
	}
	return l
}

func TestGenerated(t *testing.T) {
	refl.Ladder = ladder()
	pbt.ReplayOnly(t, pbt.Target[Case]{Name: "fuzz", Check: check})
	for _, kind := range refl.Kinds {
		pbt.Run(t, pbt.Target[Case]{Name: kind, Checks: 2000, Gen: gen(kind), Check: check, Before: before(kind)})
	}
	// float64 elements (NaN, zeros, infinities) with the default constructors
	for _, kind := range refl.Kinds {
		pbt.Run(t, pbt.Target[Case]{Name: kind + "/float64", Checks: 500, Gen: genWith(kind, true), Check: check, Before: before(kind + "/float64")})
	}
	// element types the generic code could only tell apart by inspecting the type at
	// run time: T = any (nil, pointers, errors, mixed dynamic types) and a named uint8
	for _, elem := range []string{"any", "uint8"} {
		for _, kind := range refl.Kinds {
			pbt.Run(t, pbt.Target[Case]{Name: kind + "/" + elem, Checks: 300, Gen: genElem(kind, elem), Check: check, Before: before(kind + "/" + elem)})
		}
	}
}

// TestZZSurface records, per kind, the exported methods that exist, so that the
// evidence can list any method that was never exercised.
func TestZZSurface(t *testing.T) {
	for _, kind := range refl.Kinds {
		cfg := refl.Cfg{Kind: kind, Cap: 3, Order: 3}
		for _, m := range refl.Methods(cfg) {
			pbt.AddToSet("exported methods (kind|method)", kind+"|"+m)
		}
		for _, m := range refl.IteratorMethods(cfg) {
			pbt.AddToSet("exported iterator methods (kind|method)", kind+"|"+m)
		}
	}
}

// FuzzCalls lets Go's coverage-guided fuzzer drive the same interpreter: the
// byte string is rapid's entropy (rapid.MakeFuzz), so the fuzzer mutates
// towards new library coverage while the oracle stays the same.
func FuzzCalls(f *testing.F) {
	f.Add([]byte{})
	f.Add([]byte{1, 2, 3, 4, 5, 6, 7, 8, 9, 10, 11, 12, 13, 14, 15, 16, 17, 18, 19, 20, 21, 22, 23, 24})
	f.Fuzz(rapid.MakeFuzz(func(t *rapid.T) {
		kind := refl.Kinds[rapid.IntRange(0, len(refl.Kinds)-1).Draw(t, "kind")]
		c := gen(kind)(t)
		if p, err := pbt.FuzzCase("C17", "fuzz", c, check); err != nil {
			t.Fatalf("violation: replay=%s %v", p, err)
		}
	}))
}
