//go:build !race

package c18

const raceEnabled = false

func raceErrors() int { return 0 }
