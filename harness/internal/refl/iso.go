package refl

import (
	"fmt"
	"reflect"
	"strings"
	"testing"

	"pgregory.net/rapid"

	"verif/harness/internal/pbt"
)

// Type isomorphism.  The containers are parametric in their element type: the code
// may compare elements (==, or the comparator) and nothing else.  The thirteen
// values of the "any" domain (nil, ints, strings, a bool, a float, a struct, an
// error, two distinct pointers to equal contents) correspond one-to-one to the ints
// 0..12 — nil to 0, the zero value to the zero value, == to ==, the comparator on
// ranks to the natural order — so ONE script run on Container[int] and, translated,
// on Container[any] must return corresponding results at every step and leave
// corresponding observable states.  The int side is what the model-based checks of
// the property decide; this check carries their verdict over to an element type the
// code could only treat differently by inspecting it at run time (any(x) == nil,
// reflect.DeepEqual on interfaces, type switches).  Text-producing operations
// (String, ToJSON, ...) and JSON loads are not part of the correspondence.

type IsoCase struct {
	Cfg   Cfg    `json:"cfg"` // Elem is ignored: the script runs on "int13" and on "any"
	Steps []Step `json:"steps"`
}

// (The B-tree's LeftKey/LeftValue/RightKey/RightValue return interface{} whatever the
// key type — nil meaning "no key" — so a nil KEY is not distinguishable there by design.)
var isoExcluded = map[string]bool{"String": true, "ToJSON": true, "MarshalJSON": true, "FromJSON": true, "UnmarshalJSON": true,
	"LeftKey": true, "LeftValue": true, "RightKey": true, "RightValue": true}

// isoMethods lists the methods of the correspondence.
func isoMethods(c Cfg) []string {
	var out []string
	for _, m := range Methods(c) {
		if !isoExcluded[m] {
			out = append(out, m)
		}
	}
	return out
}

// untyped removes instantiation-specific type text ("ptr:*treeset.Set[refl.E]").
func untyped(v any) any {
	switch t := v.(type) {
	case string:
		for _, p := range []string{"ptr:", "nil:", "struct:", "slice:", "kind:"} {
			if strings.HasPrefix(t, p) {
				if i := strings.IndexByte(t, '['); i >= 0 {
					return t[:i]
				}
			}
		}
		return t
	case []any:
		out := make([]any, len(t))
		for i, x := range t {
			out[i] = untyped(x)
		}
		return out
	}
	return v
}

func isoObservers(r *Runner) map[string]any {
	o := r.Observers()
	delete(o, "String")
	delete(o, "ToJSON")
	delete(o, "Height") // as in C15: shape-dependent, not part of the correspondence
	for _, k := range []string{"LeftKey", "LeftValue", "RightKey", "RightValue"} {
		delete(o, k)
	}
	for k, v := range o {
		o[k] = untyped(v)
	}
	return o
}

func IsoCheck(c IsoCase) (pbt.Info, error) {
	var info pbt.Info
	if len(anyElems) != isoN {
		panic("refl: the any domain must have isoN elements")
	}
	ci, ca, cw := c.Cfg, c.Cfg, c.Cfg
	ci.Elem, ca.Elem, cw.Elem = "int13", "any", "wide"
	ri, ra, rw := NewRunner(ci), NewRunner(ca), NewRunner(cw)
	effective, special := 0, false
	for i, s := range c.Steps {
		if isoExcluded[s.M] {
			continue
		}
		before := ri.Size()
		// the wide struct instantiation (W{ID: k} corresponds to k) first
		xi, xw := ri.Do(s), rw.Do(s)
		if xi.Called != xw.Called {
			return info, fmt.Errorf("%s: step %d %s could be applied to only one instantiation (%q / %q)", c.Cfg.Kind, i, s.M, xi.Why, xw.Why)
		}
		if xi.Called {
			if vi, vw := untyped(xi.Vals), untyped(xw.Vals); !reflect.DeepEqual(vi, vw) || !reflect.DeepEqual(xi.ItLog, xw.ItLog) {
				return info, fmt.Errorf("%s: step %d %s returns %v %v on Container[int] but the corresponding %v %v on Container[W] (W an 80-byte struct, shown by its ID)", c.Cfg.Kind, i, s.M, vi, xi.ItLog, vw, xw.ItLog)
			}
			if oi, ow := isoObservers(ri), isoObservers(rw); !reflect.DeepEqual(oi, ow) {
				return info, fmt.Errorf("%s: after step %d %s Container[int] observes %v but Container[W] the non-corresponding %v (W an 80-byte struct, shown by its ID)", c.Cfg.Kind, i, s.M, oi, ow)
			}
		}
		xa := ra.Do(s)
		if xi.Called != xa.Called {
			return info, fmt.Errorf("%s: step %d %s could be applied to only one instantiation (%q / %q)", c.Cfg.Kind, i, s.M, xi.Why, xa.Why)
		}
		if !xi.Called {
			continue
		}
		vi, va := untyped(xi.Vals), untyped(xa.Vals)
		if !reflect.DeepEqual(vi, va) || !reflect.DeepEqual(xi.ItLog, xa.ItLog) {
			return info, fmt.Errorf("%s: step %d %s returns %v %v on Container[int] but the corresponding %v %v on Container[any] (elements shown by their position in the domain: 0 = nil, 3 and 4 = two distinct pointers to equal contents, 5 = an error)", c.Cfg.Kind, i, s.M, vi, xi.ItLog, va, xa.ItLog)
		}
		if oi, oa := isoObservers(ri), isoObservers(ra); !reflect.DeepEqual(oi, oa) {
			return info, fmt.Errorf("%s: after step %d %s Container[int] observes %v but Container[any] the non-corresponding %v (elements shown by their position in the domain: 0 = nil, 3 and 4 = two distinct pointers to equal contents)", c.Cfg.Kind, i, s.M, oi, oa)
		}
		if ri.Size() != before {
			effective++
		}
		for _, x := range s.R[:min(len(s.R), 3)] {
			if k := mod(x, isoN); k == 0 || k == 3 || k == 4 {
				special = true // nil or one of the two look-alike pointers may have been an argument
			}
		}
	}
	info.NonTrivial = effective >= 3 && special
	return info, nil
}

// GenIso draws an isomorphism case for the kind.
func GenIso(kind string) func(t *rapid.T) IsoCase {
	return func(t *rapid.T) IsoCase {
		c := IsoCase{Cfg: GenCfgElem(t, kind, "")}
		methods := isoMethods(c.Cfg)
		var weighted []string
		for _, m := range methods {
			weighted = append(weighted, m)
			switch m {
			case "Add", "Append", "Prepend", "Insert", "Put", "Push", "Enqueue":
				weighted = append(weighted, m, m, m)
			case "Remove", "Pop", "Dequeue", "Contains", "IndexOf", "Get", "GetKey":
				weighted = append(weighted, m)
			}
		}
		c.Steps = GenStepsFor(t, kind, weighted, 3, 10)
		return c
	}
}

// IsoTargets runs the type-isomorphism check for the given kinds (called from the
// test package of the property that governs those kinds).
func IsoTargets(t *testing.T, checks int, kinds ...string) {
	for _, kind := range kinds {
		pbt.Run(t, pbt.Target[IsoCase]{Name: "type-isomorphism/" + kind, Checks: checks, Gen: GenIso(kind), Check: IsoCheck})
	}
}
