package c10

// TreeBidiMap built with the DEFAULT constructor (treebidimap.New, cmp.Compare
// on keys and on values) with float64 values including NaN, the zeros and the
// infinities: cmp.Compare is a total order, so NaN is an ordinary value.

import (
	"cmp"
	"fmt"
	"math"
	"testing"

	"github.com/emirpasic/gods/v2/maps/treebidimap"
	"pgregory.net/rapid"

	"verif/harness/internal/pbt"
)

var floatDomain = []float64{math.NaN(), math.Inf(-1), -1, math.Copysign(0, -1), 0, 0.5, 1, 2.5, math.Inf(1)}

type FOp struct {
	O string `json:"o"` // put | rem | clear
	K int    `json:"k"` // index into the float domain (keys are floats too)
	V int    `json:"v"`
}

type FCase struct {
	Ops []FOp `json:"ops"`
}

func fkey(x float64) uint64 {
	if x == 0 {
		return 0
	}
	return math.Float64bits(x)
}

func checkFloat(c FCase) (pbt.Info, error) {
	var info pbt.Info
	m := treebidimap.New[float64, float64]()
	fwd, inv := map[uint64]float64{}, map[uint64]float64{} // keyed by bit pattern (NaN != NaN under ==)
	nan, collided := false, false
	for i, op := range c.Ops {
		k, v := floatDomain[op.K%len(floatDomain)], floatDomain[op.V%len(floatDomain)]
		switch op.O {
		case "put":
			if math.IsNaN(k) || math.IsNaN(v) {
				nan = true
			}
			if v0, ok := fwd[fkey(k)]; ok {
				delete(inv, fkey(v0))
			}
			if k0, ok := inv[fkey(v)]; ok {
				delete(fwd, fkey(k0))
				collided = true
			}
			fwd[fkey(k)], inv[fkey(v)] = v, k
			m.Put(k, v)
		case "rem":
			if v0, ok := fwd[fkey(k)]; ok {
				delete(fwd, fkey(k))
				delete(inv, fkey(v0))
			}
			m.Remove(k)
		default:
			fwd, inv = map[uint64]float64{}, map[uint64]float64{}
			m.Clear()
		}
		if m.Size() != len(fwd) || len(m.Keys()) != len(fwd) || len(m.Values()) != len(inv) {
			return info, fmt.Errorf("treebidimap.New[float64,float64] step %d %s(%v,%v): Size()=%d len(Keys())=%d len(Values())=%d, model has %d pairs", i, op.O, k, v, m.Size(), len(m.Keys()), len(m.Values()), len(fwd))
		}
		for _, probe := range floatDomain {
			wv, wok := fwd[fkey(probe)]
			if gv, ok := m.Get(probe); ok != wok || ok && cmp.Compare(gv, wv) != 0 {
				return info, fmt.Errorf("treebidimap.New[float64,float64] step %d %s(%v,%v): Get(%v) = (%v,%v), want (%v,%v)", i, op.O, k, v, probe, gv, ok, wv, wok)
			}
			wk, wkok := inv[fkey(probe)]
			if gk, ok := m.GetKey(probe); ok != wkok || ok && cmp.Compare(gk, wk) != 0 {
				return info, fmt.Errorf("treebidimap.New[float64,float64] step %d %s(%v,%v): GetKey(%v) = (%v,%v), want (%v,%v)", i, op.O, k, v, probe, gk, ok, wk, wkok)
			}
		}
	}
	info.NonTrivial = nan && collided
	return info, nil
}

func genFloat(t *rapid.T) FCase {
	var c FCase
	for chunk := 0; chunk < 3; chunk++ {
		ops := rapid.SliceOfN(rapid.Custom(func(t *rapid.T) FOp {
			o := []string{"put", "put", "put", "rem", "rem", "clear"}[rapid.IntRange(0, 5).Draw(t, "o")]
			if o == "clear" && rapid.IntRange(0, 3).Draw(t, "rare") != 0 {
				o = "put"
			}
			return FOp{O: o, K: rapid.IntRange(0, len(floatDomain)-1).Draw(t, "k"), V: rapid.IntRange(0, len(floatDomain)-1).Draw(t, "v")}
		}), 0, 12).Draw(t, "ops")
		c.Ops = append(c.Ops, ops...)
	}
	return c
}

func TestDefaultConstructorFloat(t *testing.T) {
	pbt.Run(t, pbt.Target[FCase]{Name: "treebidimap/default-comparator-float64", Checks: 6000, Gen: genFloat, Check: checkFloat})
}
