package c01

// Default constructors (New, with the library's default comparator) on float64
// keys, including the unusual ones: NaN, the two zeros, the infinities.
// cmp.Compare is a total order on float64 (NaN sorts first and equals itself,
// -0 == +0), so the tree-backed containers must treat NaN as an ordinary key.
// The hash-backed maps are not included: Go's == never equates NaN with itself.

import (
	"cmp"
	"fmt"
	"math"
	"slices"
	"testing"

	"github.com/emirpasic/gods/v2/maps/hashbidimap"
	"github.com/emirpasic/gods/v2/maps/hashmap"
	"github.com/emirpasic/gods/v2/maps/linkedhashmap"
	"github.com/emirpasic/gods/v2/maps/treemap"
	"github.com/emirpasic/gods/v2/trees/avltree"
	"github.com/emirpasic/gods/v2/trees/btree"
	"github.com/emirpasic/gods/v2/trees/redblacktree"
	"pgregory.net/rapid"

	"verif/harness/internal/dom"
	"verif/harness/internal/pbt"
)

// floatDomain: keys are indices into this table (NaN and Inf are not JSON-representable).
var floatDomain = []float64{math.NaN(), math.Inf(-1), -2.5, -1, math.Copysign(0, -1), 0, 0.5, 1, 2, 3.25, 1e300, math.Inf(1)}

type FOp struct {
	O string `json:"o"` // put | rem | get | clear
	K int    `json:"k"` // index into the float domain
	V int    `json:"v,omitempty"`
}

type FCase struct {
	Kind  string `json:"kind"` // redblacktree | avltree | btree | treemap, built with New (default comparator)
	Order int    `json:"order,omitempty"`
	Ops   []FOp  `json:"ops"`
}

type fkv interface {
	Put(k float64, v int)
	Get(k float64) (int, bool)
	Remove(k float64)
	Clear()
	Size() int
	Keys() []float64
	Values() []int
}

func checkFloat(c FCase) (pbt.Info, error) {
	var info pbt.Info
	var box fkv
	switch c.Kind {
	case "redblacktree":
		box = redblacktree.New[float64, int]()
	case "avltree":
		box = avltree.New[float64, int]()
	case "btree":
		box = btree.New[float64, int](c.Order)
	case "treemap":
		box = treemap.New[float64, int]()
	default:
		return info, fmt.Errorf("bad kind %q", c.Kind)
	}
	type ent struct {
		k float64
		v int
	}
	var m []ent // sorted by cmp.Compare
	find := func(k float64) (int, bool) {
		return slices.BinarySearchFunc(m, k, func(e ent, k float64) int { return cmp.Compare(e.k, k) })
	}
	show := func(k float64) string { return fmt.Sprintf("%v", k) }
	var unusual, bigRemoval, overwrite bool
	for i, op := range c.Ops {
		k := floatDomain[((op.K%len(floatDomain))+len(floatDomain))%len(floatDomain)]
		if math.IsNaN(k) || math.IsInf(k, 0) || k == 0 {
			unusual = true
		}
		switch op.O {
		case "put":
			if j, ok := find(k); ok {
				m[j] = ent{k, op.V}
				overwrite = true
			} else {
				m = slices.Insert(m, j, ent{k, op.V})
			}
			box.Put(k, op.V)
		case "rem":
			if j, ok := find(k); ok {
				if len(m) >= 3 {
					bigRemoval = true
				}
				m = slices.Delete(m, j, j+1)
			}
			box.Remove(k)
		case "get":
		case "clear":
			m = nil
			box.Clear()
		default:
			return info, fmt.Errorf("bad op %q", op.O)
		}
		if box.Size() != len(m) {
			return info, fmt.Errorf("%s(default comparator, float64 keys) step %d %s(%s): Size()=%d, model has %d live keys", c.Kind, i, op.O, show(k), box.Size(), len(m))
		}
		for _, probe := range floatDomain {
			wv, wok := 0, false
			if j, ok := find(probe); ok {
				wv, wok = m[j].v, true
			}
			if v, ok := box.Get(probe); ok != wok || v != wv {
				return info, fmt.Errorf("%s(default comparator, float64 keys) step %d %s(%s): Get(%s) = (%d,%v), want (%d,%v)", c.Kind, i, op.O, show(k), show(probe), v, ok, wv, wok)
			}
		}
		keys, vals := box.Keys(), box.Values()
		if len(keys) != len(m) || len(vals) != len(m) {
			return info, fmt.Errorf("%s step %d %s(%s): len(Keys())=%d len(Values())=%d, model has %d", c.Kind, i, op.O, show(k), len(keys), len(vals), len(m))
		}
		for j := range m {
			if cmp.Compare(keys[j], m[j].k) != 0 || vals[j] != m[j].v {
				return info, fmt.Errorf("%s step %d %s(%s): position %d holds (%s,%d), model has (%s,%d)", c.Kind, i, op.O, show(k), j, show(keys[j]), vals[j], show(m[j].k), m[j].v)
			}
		}
	}
	info.NonTrivial = unusual && bigRemoval && overwrite
	if unusual {
		info.Label("float:nan-zero-or-inf-key")
	}
	return info, nil
}

func genFloat(kind string) func(t *rapid.T) FCase {
	return func(t *rapid.T) FCase {
		c := FCase{Kind: kind}
		if kind == "btree" {
			c.Order = []int{3, 4, 5, 7}[rapid.IntRange(0, 3).Draw(t, "order")]
		}
		v := 0
		for chunk := 0; chunk < 3; chunk++ {
			ops := rapid.SliceOfN(rapid.Custom(func(t *rapid.T) FOp {
				k := rapid.IntRange(0, len(floatDomain)-1).Draw(t, "k")
				switch dom.Weighted(t, "op", 55, 35, 8, 2) {
				case 0:
					v++
					return FOp{O: "put", K: k, V: v}
				case 1:
					return FOp{O: "rem", K: k}
				case 2:
					return FOp{O: "get", K: k}
				default:
					return FOp{O: "clear"}
				}
			}), 0, 14).Draw(t, "ops")
			c.Ops = append(c.Ops, ops...)
		}
		// values must be concrete and distinct per put: renumber
		n := 0
		for i := range c.Ops {
			if c.Ops[i].O == "put" {
				n++
				c.Ops[i].V = n
			}
		}
		return c
	}
}

// Hash-backed maps with float64 keys: Go's == never equates NaN with itself, so
// the Get sentence cannot be stated for NaN keys there; what CAN be stated for
// every key type is the Clear clause — after Clear the map is empty and stays
// consistent — and the full map behaviour on the non-NaN keys.
type HCase struct {
	Kind string `json:"kind"` // hashmap | linkedhashmap | hashbidimap
	Ops  []FOp  `json:"ops"`
}

type hkv interface {
	Put(k float64, v int)
	Get(k float64) (int, bool)
	Remove(k float64)
	Clear()
	Size() int
	Empty() bool
	Keys() []float64
	Values() []int
}

func checkHashFloat(c HCase) (pbt.Info, error) {
	var info pbt.Info
	var box hkv
	switch c.Kind {
	case "hashmap":
		box = hashmap.New[float64, int]()
	case "linkedhashmap":
		box = linkedhashmap.New[float64, int]()
	case "hashbidimap":
		box = hashbidimap.New[float64, int]()
	default:
		return info, fmt.Errorf("bad kind %q", c.Kind)
	}
	model := map[float64]int{} // non-NaN keys only (== is an equivalence there; -0 == +0)
	nanPuts, cleared := 0, false
	for i, op := range c.Ops {
		k := floatDomain[((op.K%len(floatDomain))+len(floatDomain))%len(floatDomain)]
		switch op.O {
		case "put":
			if math.IsNaN(k) {
				nanPuts++
			} else {
				model[k] = op.V
			}
			box.Put(k, op.V)
		case "rem":
			if !math.IsNaN(k) {
				delete(model, k)
			}
			box.Remove(k)
		case "clear":
			box.Clear()
			model = map[float64]int{}
			if nanPuts > 0 {
				cleared = true
			}
			nanPuts = 0
			if box.Size() != 0 || !box.Empty() || len(box.Keys()) != 0 || len(box.Values()) != 0 {
				return info, fmt.Errorf("%s[float64,int] step %d: after Clear() Size()=%d Empty()=%v Keys()=%v", c.Kind, i, box.Size(), box.Empty(), box.Keys())
			}
		default:
			continue
		}
		if c.Kind == "hashbidimap" {
			continue // values collide freely here; the bidi rules are C10's subject
		}
		for _, probe := range floatDomain {
			if math.IsNaN(probe) {
				continue
			}
			wv, wok := model[probe]
			if v, ok := box.Get(probe); ok != wok || v != wv {
				return info, fmt.Errorf("%s[float64,int] step %d %s(%v): Get(%v) = (%d,%v), want (%d,%v)", c.Kind, i, op.O, k, probe, v, ok, wv, wok)
			}
		}
		if nanPuts == 0 && box.Size() != len(model) {
			return info, fmt.Errorf("%s[float64,int] step %d %s(%v): Size()=%d, model has %d keys (no NaN key since the last Clear)", c.Kind, i, op.O, k, box.Size(), len(model))
		}
	}
	info.NonTrivial = cleared
	return info, nil
}

func genHashFloat(kind string) func(t *rapid.T) HCase {
	inner := genFloat("treemap")
	return func(t *rapid.T) HCase {
		fc := inner(t)
		// values must be unique per put for the bidi kind: they already are (renumbered)
		return HCase{Kind: kind, Ops: fc.Ops}
	}
}

func TestHashKindsFloatKeysClear(t *testing.T) {
	for _, kind := range []string{"hashmap", "linkedhashmap", "hashbidimap"} {
		pbt.Run(t, pbt.Target[HCase]{Name: kind + "/float64-keys-clear", Checks: 4000, Gen: genHashFloat(kind), Check: checkHashFloat})
	}
}

func TestDefaultConstructorsFloatKeys(t *testing.T) {
	for _, kind := range []string{"redblacktree", "avltree", "btree", "treemap"} {
		pbt.Run(t, pbt.Target[FCase]{Name: kind + "/default-comparator-float64", Checks: 6000, Gen: genFloat(kind), Check: checkFloat})
	}
}
