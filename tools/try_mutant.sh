#!/bin/sh
# usage: tools/try_mutant.sh <patch.diff> <property id>...
# Applies the patch to a scratch worktree of /repo's HEAD (never to /repo itself), points the harness at it
# with VERIF_REPO, runs the quick (or $TIER) checks, and removes the worktree and its build output.
set -u
patch="$(realpath "$1")"; shift
cd /verif
wt="/tmp/tm-$$"; wk="/verif/.work/mut-$$"
git -C /repo worktree add -q --detach "$wt" HEAD || { echo "cannot create worktree" >&2; exit 3; }
cleanup() { git -C /repo worktree remove --force "$wt" >/dev/null 2>&1; rm -rf "$wt" "$wk"; }
trap cleanup EXIT INT TERM
git -C "$wt" apply "$patch" || { echo "patch does not apply" >&2; exit 3; }
for id in "$@"; do
  out=$(VERIF_REPO="$wt" VERIF_WORKDIR="$wk" VERIF_EVIDENCE_DIR="$wk/evidence" ./check "$id" ${TIER:-quick} 2>&1); code=$?
  printf '%s\n' "== $(basename "$patch") vs $id: exit $code"
  printf '%s\n' "$out" | grep -E 'VIOLATION|KNOWN|INCONCLUSIVE|^OK|^\s+\[' | head -6
done
