// C13 — set algebra is exact and free of side effects.
package c13

import (
	"fmt"
	"slices"
	"testing"

	"github.com/emirpasic/gods/v2/sets/hashset"
	"github.com/emirpasic/gods/v2/sets/linkedhashset"
	"github.com/emirpasic/gods/v2/sets/treeset"
	"pgregory.net/rapid"

	"verif/harness/internal/dom"
	"verif/harness/internal/fp"
	"verif/harness/internal/pbt"
)

func TestMain(m *testing.M) { pbt.Main(m, "C13") }

type Mut struct {
	T string `json:"t"` // a | b | r  (which of the three sets is mutated)
	O string `json:"o"` // add | rem | clear
	X int    `json:"x,omitempty"`
}

type Case struct {
	Kind string `json:"kind"` // hashset | treeset | linkedhashset
	Cmp  string `json:"cmp,omitempty"`
	A    []int  `json:"a"`    // Add(A...)
	ARem []int  `json:"arem"` // then Remove(ARem...)
	B    []int  `json:"b"`
	BRem []int  `json:"brem"`
	Same bool   `json:"same"` // b is the same object as a
	Op   string `json:"op"`   // intersection | union | difference
	Muts []Mut  `json:"muts"`
	Hi   int    `json:"hi,omitempty"` // values are drawn from 0..Hi (0 = the default 0..9)
	// operands with a past: before A/B are added the set held APre/BPre other
	// elements and was emptied again — by Clear() (How "clear") or by removing them
	APreN int    `json:"apre,omitempty"`
	BPreN int    `json:"bpre,omitempty"`
	AHow  string `json:"ahow,omitempty"`
	BHow  string `json:"bhow,omitempty"`
	// provenance: the operand is not the constructed set itself but a set DERIVED from
	// it with the same members — "select" (Select of everything), "map" (identity
	// Map), "union" (union with an empty set), "json" (loaded from its own ToJSON)
	AVia string `json:"avia,omitempty"`
	BVia string `json:"bvia,omitempty"`
	// Default: the TreeSets are made by treeset.New (the default constructor, natural
	// order) rather than NewWith — sets derived from them by the library itself
	// (Select, Map, Union, a reload) must still count as having the same comparator
	Default bool `json:"default,omitempty"`
}

// derive returns a set with the same members (and comparator) obtained another way.
func derive[S algebra[S]](s S, mk func() S, how string) S {
	switch how {
	case "union":
		return s.Union(mk())
	case "json":
		if j, ok := any(s).(interface {
			ToJSON() ([]byte, error)
		}); ok {
			if doc, err := j.ToJSON(); err == nil {
				t := mk()
				if l, ok := any(t).(interface{ FromJSON([]byte) error }); ok && l.FromJSON(doc) == nil {
					return t
				}
			}
		}
	case "select":
		if e, ok := any(s).(interface {
			Select(func(int, int) bool) S
		}); ok {
			return e.Select(func(int, int) bool { return true })
		}
	case "map":
		if e, ok := any(s).(interface {
			Map(func(int, int) int) S
		}); ok {
			return e.Map(func(_ int, v int) int { return v })
		}
	case "mapdiv":
		// a many-to-one Map that lands on the same members: {2x, 2x+1 : x in s} mapped by v/2
		// produces every member twice (only used where distinct ints are distinct members)
		t := mk()
		for _, v := range s.Values() {
			if v >= 0 && v < 1<<40 {
				t.Add(2*v, 2*v+1)
			} else {
				return s
			}
		}
		if e, ok := any(t).(interface {
			Map(func(int, int) int) S
		}); ok {
			return e.Map(func(_ int, v int) int { return v / 2 })
		}
	}
	return s
}

// past fills the set with n throw-away elements and empties it again.
func past[S algebra[S]](s S, n int, how string) {
	if n <= 0 {
		return
	}
	xs := make([]int, n)
	for i := range xs {
		xs[i] = 100000 + i
	}
	s.Add(xs...)
	if how == "remove" {
		s.Remove(xs...)
	} else {
		s.Clear()
	}
}

type algebra[S any] interface {
	Add(...int)
	Remove(...int)
	Contains(...int) bool
	Values() []int
	Size() int
	Clear()
	Intersection(S) S
	Union(S) S
	Difference(S) S
}

// class maps a value to its equivalence class under the comparator (identity
// for the one-to-one comparators): with a many-to-one comparator the members
// of a TreeSet are classes, and the algebra is over classes.
func class(cmpID string, x int) int {
	switch cmpID {
	case dom.Half:
		return x >> 1
	case dom.Mod5:
		return ((x % 5) + 5) % 5
	}
	return x
}

func sorted(xs []int) []int {
	out := slices.Clone(xs)
	slices.Sort(out)
	return out
}

func members(m map[int]bool) []int {
	var out []int
	for k := range m {
		out = append(out, k)
	}
	slices.Sort(out)
	return out
}

func run[S algebra[S]](c Case, mk func() S, ordered bool) (pbt.Info, error) {
	var info pbt.Info
	a := mk()
	past(a, c.APreN, c.AHow)
	if len(c.A) > 0 { // (an emptied operand is left exactly as Clear/Remove left it)
		a.Add(c.A...)
		a.Remove(c.ARem...)
	}
	a = derive(a, mk, c.AVia)
	b := a
	if !c.Same {
		b = mk()
		past(b, c.BPreN, c.BHow)
		if len(c.B) > 0 {
			b.Add(c.B...)
			b.Remove(c.BRem...)
		}
		b = derive(b, mk, c.BVia)
	}
	cl := func(x int) int { return class(c.Cmp, x) }
	ma, mb := map[int]bool{}, map[int]bool{}
	for _, x := range c.A {
		ma[cl(x)] = true
	}
	for _, x := range c.ARem {
		delete(ma, cl(x))
	}
	if c.Same {
		mb = ma
	} else {
		for _, x := range c.B {
			mb[cl(x)] = true
		}
		for _, x := range c.BRem {
			delete(mb, cl(x))
		}
	}
	mr := map[int]bool{}
	switch c.Op {
	case "intersection":
		for x := range ma {
			if mb[x] {
				mr[x] = true
			}
		}
	case "union":
		for x := range ma {
			mr[x] = true
		}
		for x := range mb {
			mr[x] = true
		}
	case "difference":
		for x := range ma {
			if !mb[x] {
				mr[x] = true
			}
		}
	default:
		return info, fmt.Errorf("bad op %q", c.Op)
	}
	cmpF := dom.Cmp(c.Cmp)
	verify := func(name string, s S, m map[int]bool, when string) error {
		want := members(m)
		got := s.Values()
		gotClasses := make([]int, len(got))
		for i, x := range got {
			gotClasses[i] = cl(x)
		}
		if !slices.Equal(sorted(gotClasses), want) {
			return fmt.Errorf("%s %s: %s holds %v, want %v", c.Kind, when, name, sorted(got), want)
		}
		if s.Size() != len(want) {
			return fmt.Errorf("%s %s: %s.Size()=%d, want %d", c.Kind, when, name, s.Size(), len(want))
		}
		top := 11
		if c.Hi > 0 {
			top = c.Hi + 2
		}
		for x := -1; x <= top; x++ {
			if s.Contains(x) != m[cl(x)] {
				return fmt.Errorf("%s %s: %s.Contains(%d)=%v, want %v", c.Kind, when, name, x, s.Contains(x), m[cl(x)])
			}
		}
		if ordered {
			for i := 1; i < len(got); i++ {
				if cmpF(got[i-1], got[i]) >= 0 {
					return fmt.Errorf("%s %s: %s enumerates %v, not in the operands' order (%s)", c.Kind, when, name, got, c.Cmp)
				}
			}
		}
		return nil
	}
	if err := verify("a", a, ma, "before the operation"); err != nil {
		return info, err
	}
	fa, fb := fp.Of(a), fp.Of(b)
	var r S
	switch c.Op {
	case "intersection":
		r = a.Intersection(b)
	case "union":
		r = a.Union(b)
	case "difference":
		r = a.Difference(b)
	}
	when := fmt.Sprintf("after a.%s(b) [a=%v b=%v same=%v]", c.Op, members(ma), members(mb), c.Same)
	if err := verify("result", r, mr, when); err != nil {
		return info, err
	}
	if err := verify("a", a, ma, when); err != nil {
		return info, err
	}
	if err := verify("b", b, mb, when); err != nil {
		return info, err
	}
	if g := fp.Of(a); g != fa {
		return info, fmt.Errorf("%s %s: operand a was modified structurally: %s", c.Kind, when, fp.Diff(fa, g))
	}
	if g := fp.Of(b); g != fb {
		return info, fmt.Errorf("%s %s: operand b was modified structurally: %s", c.Kind, when, fp.Diff(fb, g))
	}
	// the result must be a new object
	if any(r) == any(a) || any(r) == any(b) {
		return info, fmt.Errorf("%s %s: the result is one of the operands, not a new set", c.Kind, when)
	}
	// independence: mutate one of the three, the other two stay as they were
	for i, mu := range c.Muts {
		target, model := a, ma
		switch mu.T {
		case "b":
			target, model = b, mb
		case "r":
			target, model = r, mr
		}
		fa, fb, fr := fp.Of(a), fp.Of(b), fp.Of(r)
		switch mu.O {
		case "add":
			target.Add(mu.X)
			model[cl(mu.X)] = true
		case "rem":
			target.Remove(mu.X)
			delete(model, cl(mu.X))
		case "clear":
			target.Clear()
			for k := range model {
				delete(model, k)
			}
		}
		w := fmt.Sprintf("%s, then mutation %d %s.%s(%d)", when, i, mu.T, mu.O, mu.X)
		for _, x := range []struct {
			name string
			s    S
			m    map[int]bool
			f    string
		}{{"a", a, ma, fa}, {"b", b, mb, fb}, {"result", r, mr, fr}} {
			if err := verify(x.name, x.s, x.m, w); err != nil {
				return info, err
			}
			touched := x.name[:1] == mu.T || c.Same && (mu.T == "a" || mu.T == "b") && x.name != "result"
			if !touched {
				if g := fp.Of(x.s); g != x.f {
					return info, fmt.Errorf("%s %s: %s changed structurally although it was not the one mutated: %s", c.Kind, w, x.name, fp.Diff(x.f, g))
				}
			}
		}
	}
	return info, nil
}

func check(c Case) (pbt.Info, error) {
	var info pbt.Info
	var err error
	switch c.Kind {
	case "hashset":
		info, err = run(c, func() *hashset.Set[int] { return hashset.New[int]() }, false)
	case "linkedhashset":
		info, err = run(c, func() *linkedhashset.Set[int] { return linkedhashset.New[int]() }, false)
	case "treeset":
		f := dom.Cmp(c.Cmp) // one shared function value for both operands
		if c.Default {
			info, err = run(c, func() *treeset.Set[int] { return treeset.New[int]() }, true)
			info.Label("treeset.New")
			break
		}
		info, err = run(c, func() *treeset.Set[int] { return treeset.NewWith(f) }, true)
	default:
		return info, fmt.Errorf("bad kind %q", c.Kind)
	}
	if err != nil {
		return info, err
	}
	// relation labels, computed on the operand contents
	ma, mb := map[int]bool{}, map[int]bool{}
	for _, x := range c.A {
		ma[class(c.Cmp, x)] = true
	}
	for _, x := range c.ARem {
		delete(ma, class(c.Cmp, x))
	}
	if c.Same {
		mb = ma
	} else {
		for _, x := range c.B {
			mb[class(c.Cmp, x)] = true
		}
		for _, x := range c.BRem {
			delete(mb, class(c.Cmp, x))
		}
	}
	if dom.Coarse(c.Cmp) {
		info.Label("many-to-one-comparator")
	}
	common, onlyA, onlyB := 0, 0, 0
	for x := range ma {
		if mb[x] {
			common++
		} else {
			onlyA++
		}
	}
	for x := range mb {
		if !ma[x] {
			onlyB++
		}
	}
	switch {
	case c.Same:
		info.Label("rel:identical-object")
	case len(ma) == 0 || len(mb) == 0:
		info.Label("rel:empty-operand")
	case common == 0:
		info.Label("rel:disjoint")
	case onlyA == 0 && onlyB == 0:
		info.Label("rel:equal")
	case onlyA == 0 || onlyB == 0:
		info.Label("rel:nested")
	default:
		info.Label("rel:overlapping")
	}
	if len(ma) < len(mb) {
		info.Label("size:a<b")
	} else if len(ma) > len(mb) {
		info.Label("size:a>b")
	}
	info.NonTrivial = c.Same && len(ma) > 0 || len(ma) > 0 && len(mb) > 0 && onlyA > 0 && onlyB > 0
	return info, nil
}

func gen(kind string) func(t *rapid.T) Case {
	return func(t *rapid.T) Case {
		c := Case{Kind: kind}
		if kind == "treeset" {
			c.Cmp = dom.AllCmps[rapid.IntRange(0, len(dom.AllCmps)-1).Draw(t, "cmp")]
			if rapid.IntRange(0, 5).Draw(t, "default-ctor") == 3 {
				c.Cmp, c.Default = "", true
			}
		}
		hi, maxA, maxB := 9, 8, 8
		if rapid.IntRange(0, 9).Draw(t, "large") == 0 {
			// operands of dozens of elements, often of very different sizes
			hi = pbt.Size(90)
			c.Hi = hi
			maxA = []int{pbt.Size(80), pbt.Size(80), 6}[rapid.IntRange(0, 2).Draw(t, "sizeA")]
			maxB = []int{pbt.Size(80), 6, pbt.Size(80)}[rapid.IntRange(0, 2).Draw(t, "sizeB")]
		}
		vals := func(label string, maxN int) []int {
			minN := 0
			if maxN >= 80 {
				minN = 25 // "large" really means dozens of elements
			} else if hi > 9 && maxN <= 6 && label != "arem" && label != "brem" {
				minN = 2
			}
			return rapid.SliceOfN(rapid.IntRange(0, hi), minN, maxN).Draw(t, label)
		}
		c.A, c.ARem = vals("a", maxA), vals("arem", 3)
		huge := rapid.IntRange(0, 499).Draw(t, "ladder") == 211
		if huge {
			// both operands past 4096 elements (merge walks, bulk paths): arithmetic
			// progressions that overlap in part
			hi = 12000
			c.Hi = hi
			n, b0 := rapid.IntRange(4100, 5200).Draw(t, "ladder-n"), rapid.IntRange(0, 3000).Draw(t, "ladder-b0")
			c.A = c.A[:0]
			for i := 0; i < n; i++ {
				c.A = append(c.A, i*2)
			}
			c.B = nil
			for i := 0; i < n; i++ {
				c.B = append(c.B, b0+i*2-(i%3))
			}
			c.Same = false
		}
		if huge {
			c.BRem = vals("brem", 3)
		} else if rapid.IntRange(0, 7).Draw(t, "same") == 0 {
			c.Same = true
		} else {
			c.B, c.BRem = vals("b", maxB), vals("brem", 3)
		}
		c.Op = []string{"intersection", "union", "difference"}[rapid.IntRange(0, 2).Draw(t, "op")]
		if rapid.IntRange(0, 5).Draw(t, "past") == 0 {
			sizes := []int{1, 9, 70, 129, 300, 1100}
			c.APreN, c.AHow = sizes[rapid.IntRange(0, 5).Draw(t, "apre")], []string{"clear", "remove"}[rapid.IntRange(0, 1).Draw(t, "ahow")]
			if !c.Same && rapid.Bool().Draw(t, "bpast") {
				c.BPreN, c.BHow = sizes[rapid.IntRange(0, 5).Draw(t, "bpre")], []string{"clear", "remove"}[rapid.IntRange(0, 1).Draw(t, "bhow")]
			}
			switch rapid.IntRange(0, 5).Draw(t, "empty-after") {
			case 0, 1:
				c.A, c.ARem = nil, nil // the operand is still empty after its past
			case 2:
				if c.BPreN > 0 {
					c.B, c.BRem = nil, nil
				}
			}
		}
		vias := []string{"", "", "", "", "select", "map", "union", "json"}
		c.AVia = vias[rapid.IntRange(0, len(vias)-1).Draw(t, "avia")]
		if !c.Same {
			c.BVia = vias[rapid.IntRange(0, len(vias)-1).Draw(t, "bvia")]
		}
		if !dom.Coarse(c.Cmp) && rapid.IntRange(0, 7).Draw(t, "mapdiv") == 4 {
			if rapid.Bool().Draw(t, "mapdiv-a") || c.Same {
				c.AVia = "mapdiv"
			} else {
				c.BVia = "mapdiv"
			}
		}
		n := rapid.IntRange(0, 6).Draw(t, "nmut")
		for i := 0; i < n; i++ {
			c.Muts = append(c.Muts, Mut{
				T: []string{"a", "b", "r"}[rapid.IntRange(0, 2).Draw(t, "target")],
				O: []string{"add", "add", "rem", "rem", "clear"}[rapid.IntRange(0, 4).Draw(t, "mo")],
				X: rapid.IntRange(0, hi+1).Draw(t, "x"),
			})
		}
		return c
	}
}

func TestGenerated(t *testing.T) {
	for _, kind := range []string{"hashset", "treeset", "linkedhashset"} {
		pbt.Run(t, pbt.Target[Case]{Name: kind, Checks: 15000, Gen: gen(kind), Check: check})
	}
}

// TestExhaustive: all pairs of subsets of {0,1,2,3} (and the identical-object
// case) x the three operations x every single follow-up mutation.
func TestExhaustive(t *testing.T) {
	note := "every pair of subsets of {0,1,2,3} (16x16, plus a==b as one object) x {Intersection, Union, Difference} x one follow-up mutation (add 9 / remove 1 / clear on a, b or the result), three kinds"
	pbt.Enumerate(t, pbt.Target[Case]{Name: "exhaustive-subset-pairs", Check: check}, note, func(yield func(Case) bool) {
		idx := 0
		subset := func(mask int) []int {
			out := []int{}
			for i := 0; i < 4; i++ {
				if mask&(1<<i) != 0 {
					out = append(out, i)
				}
			}
			return out
		}
		muts := []Mut{{"a", "add", 9}, {"b", "add", 9}, {"r", "add", 9}, {"a", "rem", 1}, {"b", "rem", 1}, {"r", "rem", 1}, {"a", "clear", 0}, {"b", "clear", 0}, {"r", "clear", 0}}
		for _, kind := range []string{"hashset", "treeset", "linkedhashset"} {
			for ma := 0; ma < 16; ma++ {
				for mb := -1; mb < 16; mb++ {
					for _, op := range []string{"intersection", "union", "difference"} {
						for _, mu := range muts {
							idx++
							if !pbt.Mine(idx) {
								continue
							}
							c := Case{Kind: kind, A: subset(ma), Op: op, Muts: []Mut{mu}}
							if kind == "treeset" {
								c.Cmp = dom.Rev
							}
							if mb < 0 {
								c.Same = true
							} else {
								c.B = subset(mb)
							}
							if !yield(c) {
								return
							}
						}
					}
				}
			}
		}
	})
}
