#!/bin/sh
# usage: tools/process_seeds.sh <ID> [race]   — verifies /tmp/wt/<ID>/out/m*/ and runs the <ID> quick check against each
set -u
id="$1"; race="${2:-}"
cd /verif
for d in ${SEEDROOT:-/tmp/wt}/$id/out/m*/; do
  [ -f "$d/patch.diff" ] || continue
  name="$id-${SEEDPREFIX:-}$(basename $d)"
  v=$(tools/verify_seed.sh "$d" $race 2>&1 | grep VERDICT)
  echo "$v"
  case "$v" in *CONFIRMED*) ;; *) continue;; esac
  mkdir -p seeded/$name
  cp "$d/patch.diff" "$d/demo_test.go" seeded/$name/
  [ -f "$d/NOTES.md" ] && cp "$d/NOTES.md" seeded/$name/
  out=$(VERIF_SKIP_SEED_REGRESSIONS=1 tools/try_mutant.sh seeded/$name/patch.diff $id 2>&1)
  code=$(echo "$out" | sed -n 's/^== .* exit \([0-9]*\)$/\1/p' | head -1)
  first=$(echo "$out" | grep -A1 VIOLATION | head -2 | tail -1 | cut -c1-300)
  echo "   check $id exit=$code  $first"
  python3 - "$name" "$id" "$code" "$first" <<'PY'
import json,sys,os
name,pid,code,first=sys.argv[1:5]
d='/verif/seeded/'+name
notes=open(d+'/NOTES.md').read() if os.path.exists(d+'/NOTES.md') else ''
meta={"property":pid,"name":name,"needs_to_manifest":notes.strip(),
 "confirmed":"tools/verify_seed.sh: demo passes on the unchanged tree; patch applies and builds; the existing 411-test suite passes with it; the demo fails with it",
 "ran":[{"cmd":"tools/try_mutant.sh seeded/%s/patch.diff %s (quick tier, VERIF_SEED=1)"%(name,pid),"exit":int(code) if code.isdigit() else None,"first_violation":first.strip()}],
 "caught_by":[pid] if code=="1" else []}
json.dump(meta,open(d+'/meta.json','w'),indent=1)
PY
done
git -C /repo status --short | head -3
