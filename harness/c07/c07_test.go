// C07 — self-balancing trees stay balanced: documented shape and logarithmic
// comparator work in every state.
package c07

import (
	"encoding/json"
	"fmt"
	"sort"
	"sync"
	"testing"

	"github.com/emirpasic/gods/v2/sets/treeset"
	"pgregory.net/rapid"

	"verif/harness/internal/dom"
	"verif/harness/internal/kvh"
	"verif/harness/internal/pbt"
	"verif/harness/internal/shape"
	"verif/harness/internal/via"
)

func TestMain(m *testing.M) { pbt.Main(m, "C07") }

const TreeSet = "treeset"

// Workload ops (besides kvh's put/rem/get/clear/putrun/remrun):
//
//	zig    N keys from K alternating low/high ends inwards
//	churn  N times: remove the smallest live key, insert (largest+1)
//	churnR N times: remove the largest live key, insert (smallest-1)
//	rand   N puts of keys from a deterministic LCG seeded by K, range S
//	rrand  N removals of live keys picked by the LCG seeded by K
//	drain  remove live keys in ascending order until N remain
//	drainR remove live keys in descending order until N remain
//	load   FromJSON of the object {K+i*S: i} (i < N): the tree is rebuilt by the loader (trees and TreeMap)

var (
	ratioMu sync.Mutex
	ratio   = map[string]float64{}
)

func noteRatio(kind string, r float64) {
	ratioMu.Lock()
	if r > ratio[kind] {
		ratio[kind] = r
	}
	ratioMu.Unlock()
}

type tree struct {
	load   func([]byte) error
	kind   string
	put    func(k, v int)
	rem    func(k int)
	get    func(k int) bool
	clear  func()
	size   func() int
	shape  func() (shape.Stats, error)
	kcalls *int
	vcalls *int
	order  int
	poke   func(step int) error // uses the bystander trees (kvh.Box.Poke)
}

func build(c kvh.Case) *tree {
	if c.Kind == TreeSet {
		n := new(int)
		f := dom.Cmp(c.Cmp)
		s := treeset.NewWith[int](func(a, b int) int { *n++; return f(a, b) })
		return &tree{kind: c.Kind, put: func(k, _ int) { s.Add(k) }, rem: func(k int) { s.Remove(k) },
			get: func(k int) bool { return s.Contains(k) }, clear: s.Clear, size: s.Size, kcalls: n, vcalls: new(int)}
	}
	b := kvh.New(c)
	t := &tree{kind: c.Kind, put: b.Put, rem: b.Remove, get: func(k int) bool { _, ok := b.Get(k); return ok },
		clear: b.Clear, size: b.Size, kcalls: b.KeyCalls, vcalls: b.ValCalls, order: c.Order, poke: b.Poke}
	switch {
	case b.RBT != nil:
		t.shape = func() (shape.Stats, error) { return shape.RBT(b.RBT, false) }
		t.load = via.AutoLoader(b.RBT)
	case b.AVL != nil:
		t.shape = func() (shape.Stats, error) { return shape.AVL(b.AVL, false) }
		t.load = via.AutoLoader(b.AVL)
	case b.BT != nil:
		t.shape = func() (shape.Stats, error) { return shape.BTree(b.BT, c.Order, false) }
		t.load = via.AutoLoader(b.BT)
	case b.TreeMap != nil:
		t.load = via.AutoLoader(b.TreeMap)
	}
	return t
}

func bound(kind string, order, n int) float64 {
	switch kind {
	case kvh.AVL:
		return shape.BoundAVL(n)
	case kvh.BTree:
		return shape.BoundBTree(n, order)
	case kvh.TreeBidi:
		return 4 * shape.BoundRBT(n) // up to three tree operations per call on each side; C07 promises O(log n) there
	default:
		return shape.BoundRBT(n)
	}
}

type lcg uint64

func (l *lcg) next() uint64 {
	*l = *l*6364136223846793005 + 1442695040888963407
	return uint64(*l >> 33)
}

type flags struct {
	maxN    int
	removed int
}

func run(c kvh.Case) (flags, pbt.Info, error) {
	var fl flags
	var info pbt.Info
	t := build(c)
	live := kvh.NewModel(c.Cmp) // comparator-aware live set (drives churn/drain ops and the expected size)
	step := 0
	seen := map[string]bool{}
	label := func(l string) {
		if !seen[l] {
			seen[l] = true
			info.Label(l)
		}
	}
	var failure error
	checkShape := func(force bool) bool {
		if t.shape == nil {
			return true
		}
		n := t.size()
		if !(force || n <= 64 || step%16 == 0 && n <= 4096 || step%512 == 0) {
			return true
		}
		kb, vb := *t.kcalls, *t.vcalls
		_, err := t.shape()
		*t.kcalls, *t.vcalls = kb, vb
		if err != nil {
			failure = fmt.Errorf("%s step %d (n=%d): %v", c.Describe(), step, n, err)
			return false
		}
		return true
	}
	work := func(what string, k, nBefore int, f func()) bool {
		kb, vb := *t.kcalls, *t.vcalls
		f()
		n := max(nBefore, t.size())
		bd := bound(c.Kind, c.Order, n)
		dk, dv := *t.kcalls-kb, *t.vcalls-vb
		r := float64(max(dk, dv)) / bd
		noteRatio(c.Kind, r)
		if float64(dk) > bd || float64(dv) > bd {
			failure = fmt.Errorf("%s step %d: %s(%d) on a tree of %d keys invoked the comparator %d times (value comparator %d), bound %.1f", c.Describe(), step, what, k, n, dk, dv, bd)
			return false
		}
		return true
	}
	atomic := func(o string, k, v int) bool {
		step++
		nb := t.size()
		switch o {
		case "put":
			if c.Kind == kvh.TreeBidi {
				v = k // injective values: no cross-key eviction, so the plain map model applies
			}
			if !work("Put", k, nb, func() { t.put(k, v) }) {
				return false
			}
			live.Put(k, v)
		case "rem":
			if !work("Remove", k, nb, func() { t.rem(k) }) {
				return false
			}
			if live.Remove(k) {
				fl.removed++
			}
		case "get":
		case "clear":
			t.clear()
			live.Clear()
		}
		if t.size() != live.Len() {
			failure = fmt.Errorf("%s step %d: Size()=%d after %s(%d), expected %d", c.Describe(), step, t.size(), o, k, live.Len())
			return false
		}
		if live.Len() > fl.maxN {
			fl.maxN = live.Len()
		}
		if !work("Get", k, t.size(), func() { t.get(k) }) {
			return false
		}
		// other trees of the same kind with other orders / comparators live next to this one
		if t.poke != nil && (step < 64 || step%8 == 0) {
			if err := t.poke(step); err != nil {
				failure = fmt.Errorf("%s step %d: %v", c.Describe(), step, err)
				return false
			}
		}
		return checkShape(false)
	}
	for _, op := range c.Ops {
		ok := true
		switch op.O {
		case "put", "rem", "get", "clear":
			ok = atomic(op.O, op.K, op.V)
		case "probe":
		case "putrun":
			label("w:run")
			for i := 0; i < op.N && ok; i++ {
				ok = atomic("put", op.K+i*op.S, op.V+i)
			}
		case "remrun":
			for i := 0; i < op.N && ok; i++ {
				ok = atomic("rem", op.K+i*op.S, 0)
			}
		case "zig":
			label("w:zigzag")
			lo, hi := op.K, op.K+2*op.N
			for i := 0; i < op.N && ok; i++ {
				if i%2 == 0 {
					ok = atomic("put", lo, i)
					lo++
				} else {
					ok = atomic("put", hi, i)
					hi--
				}
			}
		case "churn", "churnR":
			label("w:churn")
			for i := 0; i < op.N && ok && live.Len() > 0; i++ {
				es := live.Sorted()
				lo, hi := es[0].K, es[len(es)-1].K
				if op.O == "churn" {
					ok = atomic("rem", lo, 0) && atomic("put", hi+1, i)
				} else {
					ok = atomic("rem", hi, 0) && atomic("put", lo-1, i)
				}
			}
		case "rand":
			label("w:random")
			g := lcg(op.K)
			rng := op.S
			if rng < 1 {
				rng = 1
			}
			for i := 0; i < op.N && ok; i++ {
				ok = atomic("put", int(g.next()%uint64(rng)), i)
			}
		case "rrand":
			g := lcg(op.K)
			for i := 0; i < op.N && ok && live.Len() > 0; i++ {
				es := live.Sorted()
				ok = atomic("rem", es[int(g.next()%uint64(len(es)))].K, 0)
			}
		case "load":
			if t.load == nil {
				break
			}
			label("w:load")
			doc := map[int]int{}
			for i := 0; i < op.N; i++ {
				doc[op.K+i*max(op.S, 1)] = i
			}
			data, _ := json.Marshal(doc)
			if err := t.load(data); err != nil {
				return fl, info, fmt.Errorf("%s: FromJSON of a well-formed document failed: %v", c.Describe(), err)
			}
			live.Clear()
			for k, v := range doc {
				live.Put(k, v)
			}
			step++
			if t.size() != live.Len() {
				return fl, info, fmt.Errorf("%s step %d: Size()=%d after FromJSON of %d keys, expected %d", c.Describe(), step, t.size(), op.N, live.Len())
			}
			if live.Len() > fl.maxN {
				fl.maxN = live.Len()
			}
			ok = checkShape(true)
		case "drain", "drainR":
			label("w:drain")
			for ok && live.Len() > op.N {
				es := live.Sorted()
				if op.O == "drain" {
					ok = atomic("rem", es[0].K, 0)
				} else {
					ok = atomic("rem", es[len(es)-1].K, 0)
				}
			}
		default:
			return fl, info, fmt.Errorf("bad op %q", op.O)
		}
		if !ok {
			return fl, info, failure
		}
	}
	if !checkShape(true) {
		return fl, info, failure
	}
	info.NonTrivial = fl.maxN >= 32 && fl.removed*4 >= fl.maxN
	if fl.maxN >= 256 {
		label("n>=256")
	}
	if fl.maxN >= 1024 {
		label("n>=1024")
	}
	return fl, info, nil
}

func check(c kvh.Case) (pbt.Info, error) {
	_, info, err := run(c)
	return info, err
}

// genWideFill: B-trees of orders beyond 128 filled until an inner node has well over
// 128 children (ascending, descending or strided keys: leaves end up about half
// full), then drained from one end or the other.
func genWideFill(t *rapid.T) kvh.Case {
	c := kvh.Case{Kind: kvh.BTree, Cmp: []string{dom.Nat, dom.Rev, dom.Big32}[rapid.IntRange(0, 2).Draw(t, "cmp")]}
	c.Order = []int{129, 130, 200, 258}[rapid.IntRange(0, 3).Draw(t, "order")]
	n := c.Order*c.Order/2 + rapid.IntRange(0, c.Order*c.Order/4).Draw(t, "extra")
	step := []int{1, -1, 3}[rapid.IntRange(0, 2).Draw(t, "step")]
	start := 0
	if step < 0 {
		start = n
	}
	c.Ops = append(c.Ops, kvh.Op{O: "putrun", K: start, V: 1, N: n, S: step})
	k := rapid.IntRange(c.Order, n/2).Draw(t, "removals")
	if rapid.Bool().Draw(t, "from-top") {
		c.Ops = append(c.Ops, kvh.Op{O: "remrun", K: start + (n-1)*step, N: k, S: -step})
	} else {
		c.Ops = append(c.Ops, kvh.Op{O: "remrun", K: start, N: k, S: step})
	}
	return c
}

var orders = []int{3, 4, 5, 6, 7, 8, 9, 16, 32, 33, 64}

func gen(kind string, big bool) func(t *rapid.T) kvh.Case {
	return func(t *rapid.T) kvh.Case {
		c := kvh.Case{Kind: kind}
		cmps := dom.AllCmps
		if kind == kvh.TreeBidi {
			cmps = dom.TotalCmps
			c.VCmp = dom.TotalCmps[rapid.IntRange(0, len(dom.TotalCmps)-1).Draw(t, "vcmp")]
		}
		// natural order most likely (sorted/reverse workloads are meaningful there);
		// the 5-class comparator rarely, since it caps n at 5
		ci := rapid.IntRange(0, 2*len(cmps)).Draw(t, "cmp")
		if ci >= len(cmps) || cmps[ci] == dom.Mod5 && rapid.IntRange(0, 3).Draw(t, "mod5") != 0 {
			ci = 0
		}
		c.Cmp = cmps[ci]
		if kind == kvh.BTree {
			c.Order = orders[rapid.IntRange(0, len(orders)-1).Draw(t, "order")]
		}
		maxRun := 120
		if big {
			maxRun = pbt.Size(1500)
		}
		nops := rapid.IntRange(1, 8).Draw(t, "nops")
		v := 1
		for i := 0; i < nops; i++ {
			ln := rapid.IntRange(1, maxRun).Draw(t, "len")
			base := rapid.IntRange(0, 50).Draw(t, "base")
			// the first op builds, the second removes (when there is one): most
			// workloads then grow a tree and shrink it again; later ops are free
			w := dom.Weighted(t, "w", 1, 5, 4, 3, 3, 4, 3, 3, 2, 2, 3)
			if i == 0 && (w == 0 || w > 4) {
				w = 1 + (w % 4)
			}
			if i == 1 && w >= 1 && w <= 4 && rapid.IntRange(0, 3).Draw(t, "force-removal") != 0 {
				w = 5 + (w % 4)
			}
			var op kvh.Op
			switch w {
			case 0:
				continue
			case 1: // sorted
				op = kvh.Op{O: "putrun", K: base, N: ln, S: 1, V: v}
				v += ln
			case 2: // reverse sorted
				op = kvh.Op{O: "putrun", K: base + ln, N: ln, S: -1, V: v}
				v += ln
			case 3:
				op = kvh.Op{O: "zig", K: base, N: ln}
			case 4:
				op = kvh.Op{O: "rand", K: rapid.IntRange(0, 1<<20).Draw(t, "seed"), N: ln, S: rapid.SampledFrom([]int{8, 64, 512, 4096}).Draw(t, "range")}
			case 5:
				op = kvh.Op{O: []string{"churn", "churnR"}[rapid.IntRange(0, 1).Draw(t, "dir")], N: ln}
			case 6:
				op = kvh.Op{O: "rrand", K: rapid.IntRange(0, 1<<20).Draw(t, "seed"), N: ln}
			case 7:
				op = kvh.Op{O: []string{"drain", "drainR"}[rapid.IntRange(0, 1).Draw(t, "dir")], N: rapid.IntRange(0, 40).Draw(t, "keep")}
			case 8:
				op = kvh.Op{O: "remrun", K: base, N: ln, S: []int{1, 2, -1}[rapid.IntRange(0, 2).Draw(t, "s")]}
			case 9:
				op = kvh.Op{O: "clear"}
			case 10:
				op = kvh.Op{O: "load", K: base, N: rapid.IntRange(0, 60).Draw(t, "loadn"), S: rapid.IntRange(1, 3).Draw(t, "loads")}
			}
			c.Ops = append(c.Ops, op)
		}
		return c
	}
}

var kinds = []string{kvh.RBT, kvh.AVL, kvh.BTree, kvh.TreeMap, TreeSet, kvh.TreeBidi}

func TestGenerated(t *testing.T) {
	for _, kind := range kinds {
		n := 5000
		if kind == kvh.TreeMap || kind == TreeSet || kind == kvh.TreeBidi {
			n = 2000
		}
		pbt.Run(t, pbt.Target[kvh.Case]{Name: kind, Checks: n, Gen: gen(kind, false), Check: check})
	}
	for _, kind := range []string{kvh.RBT, kvh.AVL, kvh.BTree} {
		pbt.Run(t, pbt.Target[kvh.Case]{Name: kind + "/big", Checks: 250, Gen: gen(kind, true), Check: check})
	}
}

// TestSmallHistories reuses the C01 history generator (single puts/removes over
// small key ranges, all comparators) with the shape oracle after every step.
func TestSmallHistories(t *testing.T) {
	for _, kind := range []string{kvh.RBT, kvh.AVL, kvh.BTree} {
		p := kvh.GenParams{Kind: kind, MaxOps: 60, RunMax: 30, Cmps: dom.AllCmps, Ranges: []int{12, 60, 300}, Orders: orders}
		pbt.Run(t, pbt.Target[kvh.Case]{Name: kind + "/histories", Checks: 15000, Gen: kvh.Gen(p), Check: check})
	}
	pbt.Run(t, pbt.Target[kvh.Case]{Name: "btree/wide-order-fill", Checks: 5, Gen: genWideFill, Check: check})
}

func TestExhaustive(t *testing.T) {
	type cfg struct {
		kind  string
		order int
		k     int
	}
	cfgs := []cfg{{kvh.RBT, 0, 5}, {kvh.AVL, 0, 5}, {kvh.BTree, 3, 5}, {kvh.BTree, 4, 5}, {kvh.BTree, 5, 5}, {kvh.BTree, 6, 5}}
	if pbt.Thorough() {
		cfgs = []cfg{{kvh.RBT, 0, 7}, {kvh.AVL, 0, 7}, {kvh.BTree, 3, 6}, {kvh.BTree, 4, 6}, {kvh.BTree, 5, 6}, {kvh.BTree, 6, 6}}
	}
	note := "every insertion permutation x removal permutation of k distinct keys, shape and work checked after every step:"
	for _, cf := range cfgs {
		note += fmt.Sprintf(" %s", cf.kind)
		if cf.order > 0 {
			note += fmt.Sprintf("(m=%d)", cf.order)
		}
		note += fmt.Sprintf(" k=%d;", cf.k)
	}
	tg := pbt.Target[kvh.Case]{Name: "exhaustive-permutations", Check: func(c kvh.Case) (pbt.Info, error) {
		_, info, err := run(c)
		info.NonTrivial = true // a complete permutation pair (stated rule)
		return info, err
	}}
	pbt.Enumerate(t, tg, note, func(yield func(kvh.Case) bool) {
		idx := 0
		for _, cf := range cfgs {
			if !kvh.PermutationPairs(cf.kind, cf.order, cf.k, &idx, pbt.Mine, yield) {
				return
			}
		}
	})
}

func TestZZRatios(t *testing.T) {
	ratioMu.Lock()
	defer ratioMu.Unlock()
	ks := make([]string, 0, len(ratio))
	for k := range ratio {
		ks = append(ks, k)
	}
	sort.Strings(ks)
	for _, k := range ks {
		pbt.SetMax("worst comparator-calls/bound ratio: "+k, ratio[k])
	}
}
