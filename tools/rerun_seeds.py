#!/usr/bin/env python3
"""Re-runs the quick check of each seeded change's property (in a scratch worktree) and refreshes meta.json."""
import json, os, subprocess, sys, glob
STRENGTHENED = {
 "C10-m3": "missed at first (TreeBidiMap was only generated with one-to-one comparators); C10 gained a target with many-to-one key/value comparators and a class-aware model",
 "C13-m2": "missed at first (every comparator of the family returned -1/0/+1); a magnitude comparator 3*(a-b) was added to the shared comparator family (dom.Mag)",
 "C02-m2": "caught thanks to the magnitude comparator added after C13-m2 was missed",
 "C16-m3": "missed at first (snapshots were taken on a container whose caches were cold); C16 now makes drawn read-only warm-up calls (IndexOf, Contains, Get, Values, ...) before every snapshot",
 "C17-m2": "missed at first (too few structure-building calls per script to reach the tree shape); C17 now lists the building methods 4x in its method table and draws longer scripts; caught by the 60 s watchdog",
 "C11-m2": "missed at first (string domain had no control characters); the string domains gained U+001F, DEL, NUL and a non-printable rune above U+FFFF",
 "C11-m3": "missed at first (heap round trips used ints/strings, whose ties are indistinguishable); C11 gained a heap target with (P,ID) items that compares the exact Pop/Dequeue sequence after the round trip",
 "C15-m3": "missed at first (the check's own invariant calls ran String() before the fingerprint baseline was taken); the invariant observers are now bracketed by fingerprints themselves",
 "C01-m3": "missed at first (the harness only used NewWith with its own comparators on int keys); C01 gained targets that use the default constructors (New) on float64 keys including NaN, the two zeros and the infinities",
 "C04-m3": "missed at first (9-value domain never reached a 10-member tree); C04 gained a 48-value-domain target with long histories",
}
only = sys.argv[1:]
for d in sorted(glob.glob('/verif/seeded/*/')):
    name = os.path.basename(d.rstrip('/'))
    if only and name not in only: continue
    mp = d + 'meta.json'
    meta = json.load(open(mp))
    pid = meta['property']
    out = subprocess.run(['tools/try_mutant.sh', d + 'patch.diff', pid], capture_output=True, text=True, cwd='/verif').stdout
    code = None; first = ''
    lines = out.splitlines()
    for i, l in enumerate(lines):
        if l.startswith('== ') and 'exit ' in l: code = int(l.rsplit('exit ', 1)[1])
        if 'VIOLATION' in l and not first and i + 1 < len(lines): first = lines[i + 1].strip()[:300]
    meta['ran'] = [{"cmd": "tools/try_mutant.sh seeded/%s/patch.diff %s (quick tier, VERIF_SEED=1, scratch worktree via VERIF_REPO)" % (name, pid), "exit": code, "first_violation": first}]
    meta['caught_by'] = [pid] if code == 1 else []
    if name in STRENGTHENED: meta['history'] = STRENGTHENED[name]
    json.dump(meta, open(mp, 'w'), indent=1)
    print(name, 'exit', code, first[:120])
