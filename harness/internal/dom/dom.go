// Package dom holds the value domains and the comparator family shared by the
// property packages.  Comparators are package-level function values so that two
// containers configured with "the same comparator" really share one function
// value (TreeSet's set algebra compares code pointers).
package dom

import (
	"cmp"
	"math"
	"sort"

	"pgregory.net/rapid"
)

// Comparator ids.  All are strict weak orders and pure.
const (
	Nat  = "nat"  // natural order
	Rev  = "rev"  // reversed
	Scr  = "scr"  // a fixed bijective scramble of the integers
	Half = "half" // coarsened, many-to-one: k>>1
	Mod5 = "mod5" // coarsened, many-to-one: k mod 5
	Mag  = "mag"  // natural order, but the result is a magnitude (3*(a-b)), not -1/0/+1
	// Results far outside the 32-bit range ("a negative number, zero, or a positive
	// number" is all a comparator promises):
	Big32 = "big32" // natural order; results are multiples of 2^32 plus bit 31: low 32 bits look like another sign
	Ext   = "ext"   // reversed order; results are math.MinInt / 0 / math.MaxInt (negating or multiplying them overflows)
	Sub31 = "sub31" // natural order as a scaled difference, (a-b)<<31: the product of two results overflows int64
)

var (
	natF  = func(a, b int) int { return cmp.Compare(a, b) }
	revF  = func(a, b int) int { return cmp.Compare(b, a) }
	scrF  = func(a, b int) int { return cmp.Compare(scramble(a), scramble(b)) }
	halfF = func(a, b int) int { return cmp.Compare(a>>1, b>>1) }
	mod5F = func(a, b int) int { return cmp.Compare(mod(a, 5), mod(b, 5)) }
	// keys are far below 2^61 in magnitude everywhere, so 3*(a-b) cannot overflow;
	// the extreme keys of the wild domains are clamped first
	magF = func(a, b int) int { return 3 * (clamp(a) - clamp(b)) }
	// +(5<<32 | 1<<31) for greater, -(5<<32) for less: as a uint32 the positive result has
	// its top bit set and the negative one is zero; (c>>31)&1 is 1 for the positive and 0
	// for the negative result
	big32F = func(a, b int) int {
		switch c := cmp.Compare(a, b); {
		case c > 0:
			return 5<<32 | 1<<31
		case c < 0:
			return -(5 << 32)
		}
		return 0
	}
	// keys are below 2^30 in magnitude wherever this member is drawn
	sub31F = func(a, b int) int { return (a - b) << 31 }
	extF   = func(a, b int) int {
		switch c := cmp.Compare(b, a); {
		case c > 0:
			return math.MaxInt
		case c < 0:
			return math.MinInt
		}
		return 0
	}
)

func clamp(k int) int {
	const lim = 1 << 59
	if k > lim {
		return lim
	}
	if k < -lim {
		return -lim
	}
	return k
}

func scramble(k int) uint64 { return uint64(k) * 0x9E3779B97F4A7C15 }
func mod(a, m int) int      { return ((a % m) + m) % m }

// AllCmps is the whole family; TotalCmps are the one-to-one members.
var (
	AllCmps   = []string{Nat, Rev, Scr, Half, Mod5, Mag, Big32, Ext, Sub31}
	TotalCmps = []string{Nat, Rev, Scr, Mag, Big32, Ext, Sub31}
)

// Cmp returns the shared function value for an id.
func Cmp(id string) func(a, b int) int {
	switch id {
	case Nat, "":
		return natF
	case Rev:
		return revF
	case Scr:
		return scrF
	case Half:
		return halfF
	case Mod5:
		return mod5F
	case Mag:
		return magF
	case Big32:
		return big32F
	case Ext:
		return extF
	case Sub31:
		return sub31F
	}
	panic("dom: unknown comparator " + id)
}

// Coarse reports whether distinct ints may compare equal under id.
func Coarse(id string) bool { return id == Half || id == Mod5 }

// SortedBy returns a sorted copy of xs under comparator id (stable).
func SortedBy(id string, xs []int) []int {
	c := Cmp(id)
	out := append([]int(nil), xs...)
	sort.SliceStable(out, func(i, j int) bool { return c(out[i], out[j]) < 0 })
	return out
}

// Weighted draws an index with the given weights.  Index 0 should be the
// cheapest / "nop" alternative: rapid shrinks towards it.
func Weighted(t *rapid.T, label string, weights ...int) int {
	total := 0
	for _, w := range weights {
		total += w
	}
	x := rapid.IntRange(0, total-1).Draw(t, label)
	for i, w := range weights {
		if x < w {
			return i
		}
		x -= w
	}
	return len(weights) - 1
}

// WildIndex resolves a raw draw to an index around a container of the given
// size: mostly in -3..size+3, sometimes extreme.
func WildIndex(raw, size int) int {
	switch mod(raw, 23) {
	case 0:
		return math.MinInt
	case 1:
		return math.MaxInt
	case 2:
		return -1
	case 3:
		return size
	case 4:
		return size - 1
	case 5:
		return 0
	case 6:
		return size + 1 + mod(raw/23, 3)
	case 7:
		return -2 - mod(raw/23, 2)
	default:
		if size == 0 {
			return 0
		}
		return mod(raw/23, size)
	}
}

// Ints draws a slice of ints from [lo,hi] with length in [minN,maxN].
func Ints(t *rapid.T, label string, lo, hi, minN, maxN int) []int {
	return rapid.SliceOfN(rapid.IntRange(lo, hi), minN, maxN).Draw(t, label)
}
