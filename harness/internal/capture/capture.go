// Package capture redirects file descriptors 1 and 2 of the process onto an
// unlinked temporary file, so that anything the library prints — through
// os.Stdout/os.Stderr or through the println builtin (which writes to fd 2
// directly) — becomes measurable as growth of that file.
package capture

import (
	"io"
	"os"
	"syscall"
)

type Capture struct {
	file   *os.File
	saved1 int
	saved2 int
	active bool
}

// Start begins capturing.  The test framework's own output is captured too
// until Stop; Stop replays it onto the real stdout.
func Start() (*Capture, error) {
	f, err := os.CreateTemp("", "verif-capture-*")
	if err != nil {
		return nil, err
	}
	_ = os.Remove(f.Name())
	c := &Capture{file: f}
	if c.saved1, err = syscall.Dup(1); err != nil {
		return nil, err
	}
	if c.saved2, err = syscall.Dup(2); err != nil {
		return nil, err
	}
	if err = syscall.Dup2(int(f.Fd()), 1); err != nil {
		return nil, err
	}
	if err = syscall.Dup2(int(f.Fd()), 2); err != nil {
		return nil, err
	}
	c.active = true
	return c, nil
}

// Size is the number of bytes written to fd 1 and 2 since Start.
func (c *Capture) Size() int64 {
	var st syscall.Stat_t
	if err := syscall.Fstat(int(c.file.Fd()), &st); err != nil {
		return -1
	}
	return st.Size
}

// Tail returns the bytes written since offset (at most 300).
func (c *Capture) Tail(offset int64) string {
	buf := make([]byte, 300)
	n, _ := c.file.ReadAt(buf, offset)
	return string(buf[:n])
}

// Stop restores the descriptors and copies what was captured to the real stdout.
func (c *Capture) Stop() {
	if !c.active {
		return
	}
	c.active = false
	_ = syscall.Dup2(c.saved1, 1)
	_ = syscall.Dup2(c.saved2, 2)
	_ = syscall.Close(c.saved1)
	_ = syscall.Close(c.saved2)
	_, _ = c.file.Seek(0, io.SeekStart)
	_, _ = io.Copy(os.Stdout, c.file)
	_ = c.file.Close()
}
