#!/usr/bin/env python3
"""Re-runs the quick check of each seeded change's property (in a scratch worktree) and refreshes meta.json."""
import json, os, subprocess, sys, glob
STRENGTHENED = {
 "C10-m3": "missed at first (TreeBidiMap was only generated with one-to-one comparators); C10 gained a target with many-to-one key/value comparators and a class-aware model",
 "C13-m2": "missed at first (every comparator of the family returned -1/0/+1); a magnitude comparator 3*(a-b) was added to the shared comparator family (dom.Mag)",
 "C02-m2": "caught thanks to the magnitude comparator added after C13-m2 was missed",
 "C16-m3": "missed at first (snapshots were taken on a container whose caches were cold); C16 now makes drawn read-only warm-up calls (IndexOf, Contains, Get, Values, ...) before every snapshot",
 "C17-m2": "missed at first (too few structure-building calls per script to reach the tree shape); C17 now lists the building methods 4x in its method table and draws longer scripts; caught by the 60 s watchdog",
 "C11-m2": "missed at first (string domain had no control characters); the string domains gained U+001F, DEL, NUL and a non-printable rune above U+FFFF",
 "C11-m3": "missed at first (heap round trips used ints/strings, whose ties are indistinguishable); C11 gained a heap target with (P,ID) items that compares the exact Pop/Dequeue sequence after the round trip",
 "C15-m3": "missed at first (the check's own invariant calls ran String() before the fingerprint baseline was taken); the invariant observers are now bracketed by fingerprints themselves",
 "C01-m3": "missed at first (the harness only used NewWith with its own comparators on int keys); C01 gained targets that use the default constructors (New) on float64 keys including NaN, the two zeros and the infinities",
 "C04-m3": "missed at first (9-value domain never reached a 10-member tree); C04 gained a 48-value-domain target with long histories",
}
STRENGTHENED.update({
 "C01-r2m1": "missed at first (B-tree orders stopped at 33); C01 gained a wide-node target (orders 34..128 with hundreds of keys)",
 "C01-r2m3": "missed at first (no float keys on hash maps); C01 gained a float64-key target for the hash kinds that checks the Clear clause with NaN keys",
 "C02-r2m1": "missed at first; C02 gained default-constructor float64 navigation targets (NaN, zeros, infinities)",
 "C03-r2m3": "missed at first (Contains probes had at most 3 arguments); probes now go up to 30 values and the whole contents",
 "C04-r2m1": "missed at first (variadics had at most 6 values); long variadics of 8..40 values added",
 "C04-r2m2": "missed at first; C04 gained a treeset.New[float64] target with NaN members",
 "C04-r2m3": "missed at first (sets of at most ~48 members); the large-domain target now fills 150..400 members and uses 9..40-argument calls",
 "C06-r2m1": "missed at first (loaded documents always spelled out every field); loads that omit the ID field were added",
 "C06-r2m2": "missed at first; C06 gained binaryheap.New / priorityqueue.New float64 targets with NaN",
 "C07-r2m2": "missed at first (no FromJSON in the workloads); a load workload op was added to C07",
 "C09-r2m2": "missed at first (histories of at most ~160 calls); soak targets of 300..1000 calls on one instance were added",
 "C10-r2m1": "missed at first; soak targets of 300..900 calls on one map were added",
 "C10-r2m2": "missed at first; C10 gained a treebidimap.New[float64,float64] target with NaN",
 "C10-r2m3": "missed at first (C10 never called FromJSON); a load op with non-injective documents was added",
 "C11-r2m1": "missed at first (values were scalars); slice-valued maps (V = []int) were added",
 "C11-r2m3": "missed at first; C11 now keeps the bytes returned by ToJSON while other containers are serialised and requires them unchanged",
 "C12-r2m1": "missed at first (prior content of at most ~10 operations); the big-int target now fills up to 400 keys before loading",
 "C12-r2m2": "missed at first (values were scalars); slice-valued maps with hand-made documents were added",
 "C12-r2m3": "missed at first (one load per case); cases may now load two or three inputs in succession",
 "C13-r2m1": "missed at first (operands of at most ~10 elements); large operands now really have 25..80 elements",
 "C13-r2m2": "missed at first (TreeSet algebra only with one-to-one comparators); many-to-one comparators with class semantics were added",
 "C13-r2m3": "missed at first; operand pairs with a size ratio of 8x and more were added",
 "C14-r2m1": "missed at first (pure predicates only); every enumerable function's callback is now logged: each pair at most once, in iterator order",
 "C14-r2m2": "missed at first; see C14-r2m1 (callback logs)",
 "C15-r2m2": "missed at first (ring capacities up to 7, single enqueues); capacities up to 100 and repeated-call bulk steps were added",
 "C16-r2m1": "missed at first (variadics of at most 5 values); variadic calls and constructor lists of 32..200 values into never-filled containers were added",
 "C16-r2m2": "missed at first (states were never built through FromJSON); the generic script gained a load op",
 "C16-r2m3": "missed at first (the check's own observers consumed the first snapshot after a mutation); the first Values()/Keys() after each mutation is now poisoned before anything else runs",
 "C17-r2m1": "missed at first (variadics of at most 6 values, lists under ~100 elements); bulk steps (repeat N, V values) were added to the reflective driver",
 "C17-r2m2": "missed at first (int elements only); the reflective driver gained a float64 configuration with the default constructors; caught by the watchdog",
 "C17-r2m3": "missed at first (queues under ~60 elements); bulk steps were added",
 "C18-r2m1": "missed at first (once-per-process initialisation was warmed by earlier sequential calls); a deep-structures-first concurrent target now runs as the first test of the process, and the concurrent phase precedes the sequential answers",
 "C18-r2m4": "missed at first (int elements only); concurrent readers over string-element containers (two instances at once) were added",
})
STRENGTHENED.update({
 "C02-r3m3": "missed at first (no FromJSON in C02's histories); the key-value history engine gained a load op (documents with several keys of one comparator class), used by C01 and C02",
 "C02-r3m4": "missed at first; see C02-r3m3 (load op: Min/Max are answered before and after a FromJSON)",
 "C03-r3m3": "an aliasing defect (arraylist.New adopts the caller's slice): not visible to C03's sequence model, caught by C16 (slice passed to the constructor overwritten)",
 "C03-r3m4": "missed at first (Contains probes on long lists had at most 4 arguments); long lists are now probed with 9..70 present values (with repeats), one absent value among them, and the whole contents",
 "C06-r3m4": "missed at first (only fresh iterators were used); C06 now also walks ONE long-lived iterator, rewound by Begin/First/End/Last after every step, and C08 gained rewound-after-mutation targets for all 18 iterator types",
 "C13-r3m4": "missed at first (operands were always freshly built); operands may now have a past: filled with 1..1100 other elements and emptied again by Clear or Remove, and left empty",
 "C14-r3m2": "missed at first (Map results were compared modulo the comparator, because the surviving representative of a class was thought unspecified); Map is now also compared EXACTLY with a new container into which the mapped elements are inserted one by one (the property's own definition), and Select results exactly with the receiver's elements",
 "C15-r3m2": "missed at first (int elements only); C15 gained float64 targets with the default constructors (NaN elements are not equal to themselves and must not survive Clear)",
 "C17-r3m2": "missed at first (the reflective driver only used comparators returning -1/0/+1); it now also draws magnitude comparators (natural and reversed order, results 2..301); caught by the 60 s watchdog",
})
STRENGTHENED.update({
 "C02-r4m2": "TreeMap.Map builds its result assuming monotone keys: invisible to C02's histories (no enumerable calls), a C14 clause; caught by C14",
 "C03-r4m2": "an aliasing defect (arraylist.New adopts the caller's slice): a C16 clause; caught by C16",
 "C03-r4m3": "missed at first (int elements only; the change tells interface element types apart with reflection and compares them with reflect.DeepEqual); caught by the type-isomorphism target: one script on List[int] and, translated, on List[any] (two distinct pointers to equal contents among the elements)",
 "C05-r4m1": "missed at first by C05 (no failing loads in its histories; C12 caught it from the start: atomic on error); C05's histories now contain loads that fail, after which nothing dequeued earlier may come back",
 "C05-r4m2": "missed at first by C05 (documents never longer than the ring's capacity; C12 caught it from the start); C05 now loads over-long documents into the ring (the last capacity-many values stay)",
 "C05-r4m3": "missed at first (the change drops pushed nil interface values); caught by the type-isomorphism target (Stack[int] vs Stack[any], nil corresponds to 0)",
 "C06-r4m2": "missed at first by C06 (loads only through FromJSON; C12 caught it from the start); every load op of C01-C10 now alternates between FromJSON, UnmarshalJSON and json.Unmarshal(doc, container)",
 "C08-r4m2": "missed at first (heap iterators only with one-to-one comparators); heaps and priority queues now also use many-to-one orders, where the iterator must still walk exactly the Values() sequence",
 "C08-r4m3": "missed at first (the change between the iterator's creation and its rewind was never a JSON load); the rewound-after-mutation targets now also change the container by FromJSON / UnmarshalJSON / json.Unmarshal",
 "C08-r4m4": "missed at first by C08 (lists were built by Add and Remove only; C03 caught it from the start); the three lists may now also get several values spliced in front (Insert(0, ...))",
 "C09-r4m2": "missed at first by C09 (loaded objects had no repeated member name; C12 caught it from the start); C09's loads now repeat member names, adjacent and apart",
 "C09-r4m3": "missed at first (the change drops nil interface values); caught by the type-isomorphism target (Set[int] vs Set[any])",
 "C11-r4m1": "missed at first (ToJSON was only called once, at the end of the history); the history now takes earlier snapshots through ToJSON and json.Marshal",
 "C12-r4m3": "missed at first (int/string/float elements only); C12 gained targets with T = any, whose reference is what encoding/json decodes the document to in a fresh []any / map[string]any",
 "C13-r4m1": "missed at first (operands always came from the constructor); operands may now be derived sets with the same members: Select of everything, identity Map, union with an empty set, reload of their own ToJSON",
 "C16-r4m2": "missed at first (GetSortedValues only over ints); C16 gained float64 targets with NaN, the zeros and the infinities (result must be a permutation whose non-NaN elements ascend)",
 "C17-r4m1": "NOT caught, by decision: it needs an iterator that keeps being used after a Push WITHOUT being rewound; on the unchanged tree the linked-list iterators already dereference nil in such interleavings, which DESIGN (C17, not-claimed) places outside documented use (README: unsafe to modify while iterating)",
 "C17-r4m2": "missed at first (int/float elements only); the reflective driver gained T = any and T = a named uint8 (unsigned JSON object keys)",
 "C17-r4m3": "missed at first (peers handed to the set algebra were always built with the receiver's comparator); one peer in seven now uses the other comparator (documented: the result is the empty set)",
 "C18-r4m3": "missed at first (the change only writes when the element type is an interface or pointer); C18 gained concurrent and purity targets with T = any",
})
R5 = "round 5 (adversarial: the sub-agent was given a description of the tester's limits and asked to stay outside them); "
STRENGTHENED.update({
 "C01-r5m1": R5 + "missed at first (needs > 8192 live keys, then thousands of removals); C01 gained big-drain targets (4200..9100 live keys, then most removed oldest-first, newest-first or strided)",
 "C01-r5m2": R5 + "missed at first (natural comparator specialised by a type switch that misses NAMED float types); the default-constructor targets (internal/ordtypes: 13 ordered types incl. named floats with NaN, 64-bit integers at the ends of their ranges) catch it",
 "C01-r5m3": R5 + "missed at first (comparator results >= 2^31); comparators whose results are multiples of 2^32, MinInt/MaxInt, or (a-b)<<31 joined the family",
 "C02-r5m1": R5 + "missed at first (subtraction-based natural comparator wrong for uint64 >= 2^63 / distant int64); caught by the default-constructor targets",
 "C02-r5m2": R5 + "missed at first (comparator results >= 2^32); caught by the new huge-result comparators",
 "C02-r5m3": R5 + "missed at first by C02 (needs one Add of >= 1024 values into an empty TreeSet with a many-to-one comparator); caught by C04's ladder argument counts (513, 1025, 2049 values in one call)",
 "C03-r5m1": R5 + "missed at first (only element types wider than 16 bytes take the new path); the type-isomorphism target gained a third instantiation, an 80-byte struct",
 "C04-r5m1": R5 + "missed at first (needs >= 1024 arguments in one Remove); C04's large-domain target now makes calls with 513, 1025 and 2049 arguments",
 "C04-r5m2": R5 + "missed at first (named float type); caught by the default-constructor targets",
 "C05-r5m1": R5 + "missed at first (ring capacity 300); the long target now draws capacities 255..4100 with phases long enough to fill and wrap them",
 "C05-r5m3": R5 + "missed at first (element types wider than 64 bytes: divide by zero); caught by the 80-byte struct instantiation of the type-isomorphism target",
 "C06-r5m2": R5 + "missed at first (needs a heap of > 2048 elements and one Push of >= 456); C06 gained a huge target (2100..4200 elements, then one bulk push of 300..1100)",
 "C06-r5m3": R5 + "missed at first (named float type); caught by the default-constructor targets",
 "C07-r5m1": R5 + "missed at first (needs a node with >= 129 children: order >= 129 and thousands of keys); C07 gained a wide-order-fill target (orders 129..258, order^2/2.. keys, then a drain)",
 "C08-r5m2": R5 + "missed at first (needs a B-tree node with > 256 entries); C08 draws orders up to 512 and fills such nodes",
 "C10-r5m1": R5 + "missed at first by C10 (needs >= 4096 pairs, then a drain); caught by C01's big-drain target on HashBidiMap",
 "C10-r5m2": R5 + "missed at first (named float type); caught by the default-constructor targets (also hosted by C10)",
 "C10-r5m3": R5 + "missed at first (comparator results >= 2^31); caught by the new huge-result comparators",
 "C13-r5m1": R5 + "missed at first (both operands >= 4096 elements); C13 rarely draws operands of 4100..5200 elements",
 "C13-r5m2": R5 + "missed at first (the product of two comparator results overflows); caught with the (a-b)<<31 comparator",
 "C13-r5m3": R5 + "missed at first by C13 (named float type); caught by the default-constructor targets of C02/C04",
 "C14-r5m2": R5 + "missed at first (receivers of >= 1024 entries); C14 rarely draws receivers of 1100..4200 elements (the callback log shows the predicate consulted twice)",
 "C15-r5m1": R5 + "missed at first by C15 (one Add of >= 2048 values onto a non-empty list, then a removal at the junction); caught by C03's ladder adds with junction operations",
 "C15-r5m2": R5 + "missed at first by C15 (ring capacity > 1024); caught by C05's large rings",
 "C16-r5m1": R5 + "missed at first (one Add of >= 4096 values on an empty list); C16's big targets rarely pass 513..4097 values in one call and to the constructor",
 "C16-r5m2": R5 + "missed at first (ring capacity >= 2048); C16's big ring capacities now include 300 and 2048",
 "C17-r5m2": R5 + "missed at first (a typed nil pointer with a String method among the elements); it joined the any domain",
 "C17-r5m3": R5 + "missed at first (ring capacity > 1024 and more than 1024 enqueues after a dequeue); the reflective driver rarely draws large rings and repeat counts from a ladder",
})
NOT_CAUGHT_R5 = "round 5 (adversarial): not caught at the quick tier; it needs "
STRENGTHENED.update({
 "C03-r5m2": NOT_CAUGHT_R5 + "one Add of more than 65536 values (the thorough tier's ladder in C17 reaches 65537 and 262145, C03's does not)",
 "C04-r5m3": NOT_CAUGHT_R5 + "~12300 descending inserts into one red-black tree",
 "C05-r5m2": NOT_CAUGHT_R5 + "2^32 enqueues on one instance",
 "C06-r5m1": NOT_CAUGHT_R5 + "a heap of >= 12288 elements with ties, whose Values() costs seconds per call",
 "C07-r5m2": NOT_CAUGHT_R5 + "a loaded document of exactly 4096, 8192, ... members",
 "C07-r5m3": NOT_CAUGHT_R5 + "65536 removals on one tree",
 "C08-r5m1": NOT_CAUGHT_R5 + "a LinkedHashMap of > 4096 entries cleared under a long-lived iterator",
 "C08-r5m3": NOT_CAUGHT_R5 + "a heap of >= 8191 elements read through a long-lived iterator",
 "C09-r5m1": NOT_CAUGHT_R5 + ">= 512 arguments in one LinkedHashSet.Remove AND a long-lived iterator rewound afterwards",
 "C09-r5m2": R5 + "missed at first (a key type with a normalising UnmarshalText); caught since the key-type families of internal/keytypes (uint64 up to 2^64-1, int8, named int64/string with String methods, text-marshalling integer, struct and string keys) joined C09, C11 and C12",
 "C09-r5m3": NOT_CAUGHT_R5 + ">= 4096 entries, an odd count, and the removal of the exact middle key",
 "C11-r5m1": R5 + "missed at first (a defined key type with a String method); caught since the key-type families of internal/keytypes (uint64 up to 2^64-1, int8, named int64/string with String methods, text-marshalling integer, struct and string keys) joined C09, C11 and C12",
 "C11-r5m2": NOT_CAUGHT_R5 + "a DoublyLinkedList whose size is an exact multiple of 4096 at a serialisation point",
 "C11-r5m3": R5 + "missed at first (uint64 keys >= 2^63 in a LinkedHashMap document); caught since the key-type families of internal/keytypes (uint64 up to 2^64-1, int8, named int64/string with String methods, text-marshalling integer, struct and string keys) joined C09, C11 and C12",
 "C12-r5m1": R5 + "missed at first (a key type with a normalising UnmarshalText); caught since the key-type families of internal/keytypes (uint64 up to 2^64-1, int8, named int64/string with String methods, text-marshalling integer, struct and string keys) joined C09, C11 and C12",
 "C12-r5m2": NOT_CAUGHT_R5 + "a document of >= 64 KiB with struct elements that omit fields",
 "C12-r5m3": NOT_CAUGHT_R5 + "two goroutines LOADING two different maps at the same time (package-level buffer; the checks run concurrent readers only — C18's claim — and loads sequentially)",
 "C14-r5m1": NOT_CAUGHT_R5 + "131072 descending inserts into a TreeMap",
 "C14-r5m3": NOT_CAUGHT_R5 + "an ArrayList of more than 65536 elements",
 "C15-r5m3": NOT_CAUGHT_R5 + "more than 100 goroutines inside String() at the same moment",
 "C16-r5m3": NOT_CAUGHT_R5 + "GetSortedValues over >= 131072 values",
 "C17-r5m1": NOT_CAUGHT_R5 + "one call with >= 262144 values on an empty ArrayList (the thorough tier's ladder in C17 includes 262145)",
 "C18-r5m1": NOT_CAUGHT_R5 + "a B-tree of height >= 17 (131071 keys)",
 "C18-r5m3": NOT_CAUGHT_R5 + "a zero-value hashmap.Map that was not made by its constructor (outside C17/C18's 'containers made by their constructors')",
})
# seeds whose defect belongs to another property's clause: checks tried when the own check stays silent
CROSS = {"C01-r5m2": ["C02"], "C02-r5m3": ["C04"], "C10-r5m1": ["C01"], "C13-r5m3": ["C02"], "C15-r5m1": ["C03"], "C15-r5m2": ["C05"], "C03-r3m3": ["C16"], "C03-r4m2": ["C16"], "C02-r4m2": ["C14"]}

R6 = "round 6 (independent; themes: two cooperating sites, a multi-step history, a modernisation pull request); "
STRENGTHENED.update({
 "C01-r6m1": R6 + "missed at first (bidirectional maps with many-to-one comparators were compared modulo the comparator); the TreeBidiMap many-to-one target now pins exact representatives (Get(k)=v and GetKey(v)=k name each other exactly, Values() is the multiset of current values) and is hosted by C01 as well as C10",
 "C01-r6m2": R6 + "missed at first by C01 (its histories had no load that fails; C12 caught it from the start: atomic on error); C01's load ops may now be spoiled (a well-formed document with a mistyped value, a truncated one): the load must be rejected and is then neither a Put nor a Remove nor a Clear",
 "C01-r6m3": R6 + "missed at first by C01 (no null document in its histories; C12 and C17 caught it from the start — C12 only after its native fuzz target's seed-corpus run was made to recover panics instead of killing the shard, which had turned the verdict into INCONCLUSIVE); C01's load ops now include null followed by further Puts",
 "C03-r6m3": R6 + "missed at first (lists of interface-typed elements never held unhashable values); C03 gained a target with List[any] holding nested arrays and objects (as FromJSON of a nested document produces), probed with comparable scalars",
 "C09-r6m2": R6 + "missed at first by C09 (only fresh iterators; C08's rewound-after-mutation target caught it from the start); C09 now keeps ONE iterator per container from the start and rewinds it (Begin / End) after every step",
 "C10-r6m2": R6 + "missed at first (soak histories used 2..9 keys: no high-water mark); C10 gained a tides target: grow to 20..280 pairs, shrink by Clear or by removals down to a drawn rest, then Puts that collide on key and value at once, up to three tides",
 "C13-r6m1": R6 + "missed at first (TreeSets were only made by NewWith); one TreeSet case in six now uses the default constructor treeset.New, together with the derived operands (Select, Map, Union, reload) that were already there",
 "C13-r6m3": R6 + "missed at first (int members only); C13 gained float64 targets (NaN, the two zeros, the infinities): a NaN is never in the other set, so an intersection holds none and a difference keeps the receiver's",
 "C14-r6m1": R6 + "missed at first by C14 (receivers were always built directly, with spare capacity; C18's purity check caught it from the start); receivers may now have a past: grown and shrunk again, loaded by FromJSON, filled and cleared",
 "C14-r6m2": R6 + "missed at first (every enumerable function was called once on a receiver that never changed again; C18 saw the cache field from the start); C14 now adds elements to the receiver after the first round and checks everything a second time",
 "C17-r6m2": R6 + "NOT caught, by decision (as C17-r4m1): it needs an iterator that keeps being used after Remove of the element it stands on WITHOUT being rewound; iterator use across a modification is outside documented use (README: unsafe to remove while iterating) and panics on the unchanged tree for four iterator types already",
})
CROSS.update({"C01-r6m2": ["C12"], "C01-r6m3": ["C12", "C17"], "C09-r6m2": ["C08"], "C14-r6m1": ["C18"], "C14-r6m2": ["C18"]})

R7 = "round 7 (independent; themes: a rarely used entry point, a configuration corner, a recovery corner); "
STRENGTHENED.update({
 "C01-r7m1": R7 + "LinkedHashMap.Map with a many-to-one key mapping lists a key twice: invisible to C01's histories (no enumerable calls), a C14 clause; caught by C14",
 "C03-r7m2": R7 + "an aliasing defect (arraylist.New adopts the caller's slice): a C16 clause; caught by C16",
 "C10-r7m1": R7 + "TreeBidiMap.Map/Select store pairs without eviction: invisible to C10's histories (no enumerable calls), a C14 clause; caught by C14",
 "C12-r7m2": R7 + "AVL FromJSON builds the tree from the decoded map's keys without merging keys that are equal under a many-to-one comparator: C12 loads only with natural and reversed comparators; caught by the load ops of C01 and C02, whose documents hold several keys of one comparator class",
 "C02-r7m3": R7 + "missed at first by C02 (only fresh iterators; C08 caught it from the start); C02's forward and backward walks now run the same iterator off the end, rewind it and walk again",
 "C11-r7m3": R7 + "missed at first by C11 (its histories contained no load that fails; C12 caught it from the start: atomic on error); the shared state scripts of C11, C12, C16 and C18 now contain loads of a well-formed document whose last element is mistyped (badload): rejected, and the state that is then round-tripped must be the one before",
 "C13-r7m1": R7 + "missed at first by C13 (derived operands used the identity Map only; C14 caught the defect in Map itself from the start); operands may now be derived by a many-to-one Map that lands on the same members ({2x, 2x+1} mapped by v/2)",
 "C14-r7m1": R7 + "missed at first by every check (results of Select/Map were compared through Values(), further Adds and fingerprints, never walked backwards or indexed from the tail); derived containers are now compared with a container built by plain insertions: backward iteration, and for lists Get at every index, Remove(size-2), Set(size-1), Insert(size-1, two values), Remove(size-1), Add",
 "C15-r7m2": R7 + "LinkedHashSet.Add with a value repeated inside one call lists it twice: Size()==len(Values()) still holds literally (both read the list), the membership clause is C04's; caught by C04",
 "C16-r7m1": R7 + "missed at first by every check (GetSortedValuesFunc was only given -1/0/+1 comparators); it is now also called with comparators whose results have magnitude 2..6, ascending and descending, and with a many-to-one order (permutation, non-decreasing under the comparator)",
})
CROSS.update({"C01-r7m1": ["C14"], "C03-r7m2": ["C16"], "C10-r7m1": ["C14"], "C12-r7m2": ["C01"], "C15-r7m2": ["C04"]})

R8 = "round 8 (independent; themes: a delayed effect, one observer only, cross-instance interference); "
STRENGTHENED.update({
 "C01-r8m3": R8 + "LinkedHashMap.ToJSON returns bytes of a pooled buffer that the next ToJSON of ANY linked hash map overwrites: invisible to C01's histories, a C11 clause (the bytes returned by ToJSON are kept while other containers are serialised); caught by C11",
 "C02-r8m3": R8 + "TreeSet Union/Difference with an empty operand return a shallow clone that shares the operand's nodes: a C13 clause (the result shares no state); caught by C13",
 "C03-r8m3": R8 + "an aliasing defect (arraylist.New adopts the caller's slice, so two lists built from one slice share storage): a C16 clause; caught by C16",
 "C04-r8m3": R8 + "HashSet Union/Difference with an empty operand borrow the operand's map: a C13 clause; caught by C13",
 "C05-r8m3": R8 + "ArrayList.Values returns a view of the backing array (so ArrayQueue.Values does): a C16 clause; caught by C16",
 "C06-r8m3": R8 + "ArrayList.Add on a list without backing array adopts the variadic slice (two heaps bulk-pushed from one slice share storage): a C16 clause; caught by C16",
 "C07-r8m3": R8 + "missed at first by every check (B-tree thresholds read from a package-level memo of the LAST order constructed: creating a tree of another order changes the limits of every existing tree); the key-value engine now keeps bystanders — other containers of the same kind with other orders and comparators, created after the one under test, used between its steps and replaced now and then — in C01 and C07",
 "C08-r8m3": R8 + "ArrayList.Add adopts the variadic slice: a C16 clause; caught by C16",
 "C09-r8m2": R8 + "LinkedHashSet.Values hands out its cache: a C16 clause (returned slices are snapshots); caught by C16",
 "C09-r8m3": R8 + "pooled ToJSON buffer (as C01-r8m3): a C11 clause; caught by C11",
 "C10-r8m3": R8 + "TreeBidiMap.Select returns the receiver itself when nothing is rejected: a C14 clause; caught by C14",
 "C15-r8m3": R8 + "arraylist.New keeps the variadic slice: a C16 clause; caught by C16",
 "C17-r8m3": R8 + "missed by C17 itself (one container per case, comparators total on ints: the foreign comparator of a pooled temporary heap gives a wrong order, never a panic); caught by C06, C08 and C15, whose cases follow each other in one process with different comparators while the package-level pool outlives a case",
})
CROSS.update({"C01-r8m3": ["C11"], "C02-r8m3": ["C13"], "C03-r8m3": ["C16"], "C04-r8m3": ["C13"], "C05-r8m3": ["C16"], "C06-r8m3": ["C16"], "C08-r8m3": ["C16"], "C09-r8m2": ["C16"], "C09-r8m3": ["C11"], "C10-r8m3": ["C14"], "C15-r8m3": ["C16"], "C17-r8m3": ["C06", "C08"]})

from concurrent.futures import ThreadPoolExecutor
args = sys.argv[1:]
jobs = 1
if args and args[0] == '-j':
    jobs = int(args[1]); args = args[2:]
only = args
os.environ['VERIF_SKIP_SEED_REGRESSIONS'] = '1'  # measure the generated search, not the replay tier harvested from these very seeds


def one(d):
    name = os.path.basename(d.rstrip('/'))
    mp = d + 'meta.json'
    meta = json.load(open(mp))
    pid = meta['property']
    ran, caught, first1 = [], [], ''
    for cid in [pid] + CROSS.get(name, []):
        out = subprocess.run(['tools/try_mutant.sh', d + 'patch.diff', cid], capture_output=True, text=True, cwd='/verif').stdout
        code = None; first = ''
        lines = out.splitlines()
        for i, l in enumerate(lines):
            if l.startswith('== ') and 'exit ' in l: code = int(l.rsplit('exit ', 1)[1])
            if 'VIOLATION' in l and not first and i + 1 < len(lines): first = lines[i + 1].strip()[:300]
        ran.append({"cmd": "VERIF_SKIP_SEED_REGRESSIONS=1 tools/try_mutant.sh seeded/%s/patch.diff %s (quick tier, VERIF_SEED=1, scratch worktree via VERIF_REPO)" % (name, cid), "exit": code, "first_violation": first})
        first1 = first1 or first
        if code == 1:
            caught.append(cid)
            break
    meta['ran'] = ran
    meta['caught_by'] = caught
    if name in STRENGTHENED: meta['history'] = STRENGTHENED[name]
    json.dump(meta, open(mp, 'w'), indent=1)
    return '%s caught_by=%s %s' % (name, ','.join(caught) or 'NONE', first1[:120])


dirs = [d for d in sorted(glob.glob('/verif/seeded/*/')) if not only or os.path.basename(d.rstrip('/')) in only]
# C17 crash replays share file names per shard: those seeds run one at a time
par = [d for d in dirs if not os.path.basename(d.rstrip('/')).startswith('C17-')]
seq = [d for d in dirs if os.path.basename(d.rstrip('/')).startswith('C17-')]
with ThreadPoolExecutor(jobs) as ex:
    for line in ex.map(one, par):
        print(line, flush=True)
for d in seq:
    print(one(d), flush=True)
