// C05 — stacks are LIFO, queues FIFO, the circular buffer a bounded FIFO.
package c05

import (
	"encoding/json"
	"fmt"
	"slices"
	"sync"
	"testing"

	"github.com/emirpasic/gods/v2/queues/arrayqueue"
	"github.com/emirpasic/gods/v2/queues/circularbuffer"
	"github.com/emirpasic/gods/v2/queues/linkedlistqueue"
	"github.com/emirpasic/gods/v2/stacks/arraystack"
	"github.com/emirpasic/gods/v2/stacks/linkedliststack"
	"pgregory.net/rapid"

	"verif/harness/internal/dom"
	"verif/harness/internal/pbt"
	"verif/harness/internal/via"
)

func TestMain(m *testing.M) { pbt.Main(m, "C05") }

// Op codes: "add" (Push/Enqueue v), "take" (Pop/Dequeue), "peek", "clear".
type Op struct {
	O  string `json:"o"`
	V  int    `json:"v,omitempty"`
	Vs []int  `json:"vs,omitempty"` // load: the denoted content, in removal order
}

type Case struct {
	Kind string `json:"kind"`
	Cap  int    `json:"cap,omitempty"`
	Ops  []Op   `json:"ops"`
}

// adapter over the five containers
type box struct {
	add    func(int)
	take   func() (int, bool)
	peek   func() (int, bool)
	clear  func()
	size   func() int
	empty  func() bool
	values func() []int
	full   func() bool // nil unless ring
	lifo   bool
	toJSON func() ([]byte, error)
	load   func([]byte) error
}

func build(kind string, c int) box {
	switch kind {
	case "arraystack":
		s := arraystack.New[int]()
		return box{s.Push, s.Pop, s.Peek, s.Clear, s.Size, s.Empty, s.Values, nil, true, s.ToJSON, via.AutoLoader(s)}
	case "linkedliststack":
		s := linkedliststack.New[int]()
		return box{s.Push, s.Pop, s.Peek, s.Clear, s.Size, s.Empty, s.Values, nil, true, s.ToJSON, via.AutoLoader(s)}
	case "arrayqueue":
		q := arrayqueue.New[int]()
		return box{q.Enqueue, q.Dequeue, q.Peek, q.Clear, q.Size, q.Empty, q.Values, nil, false, q.ToJSON, via.AutoLoader(q)}
	case "linkedlistqueue":
		q := linkedlistqueue.New[int]()
		return box{q.Enqueue, q.Dequeue, q.Peek, q.Clear, q.Size, q.Empty, q.Values, nil, false, q.ToJSON, via.AutoLoader(q)}
	case "circularbuffer":
		q := circularbuffer.New[int](c)
		return box{q.Enqueue, q.Dequeue, q.Peek, q.Clear, q.Size, q.Empty, q.Values, q.Full, false, q.ToJSON, via.AutoLoader(q)}
	}
	panic("unknown kind " + kind)
}

var (
	ringMu     sync.Mutex
	ringStates = map[[3]int]struct{}{} // (cap, start, size) triples reached
)

func check(c Case) (pbt.Info, error) {
	var info pbt.Info
	b := build(c.Kind, c.Cap)
	ring := c.Kind == "circularbuffer"
	var model []int // removal order: model[0] is removed next
	var (
		takesAfterAdd, evictions, takes, enq int
		phase                                int // 0: nothing, 1: took, 2: took then added, 3: took, added, took
		start                                int // ring start offset implied by the history
		emptyTake                            bool
	)
	for i, op := range c.Ops {
		switch op.O {
		case "add":
			b.add(op.V)
			enq++
			if b.lifo {
				model = slices.Insert(model, 0, op.V)
			} else {
				if ring && len(model) == c.Cap {
					model = model[1:]
					evictions++
					start = (start + 1) % c.Cap
				}
				model = append(model, op.V)
			}
			if phase == 1 {
				phase = 2
			}
		case "take":
			v, ok := b.take()
			if len(model) == 0 {
				emptyTake = true
				if ok || v != 0 {
					return info, fmt.Errorf("step %d: take on empty returned (%v,%v), want (0,false)", i, v, ok)
				}
			} else {
				if !ok || v != model[0] {
					return info, fmt.Errorf("step %d: take returned (%v,%v), want (%v,true)", i, v, ok, model[0])
				}
				model = model[1:]
				takes++
				if enq > 0 {
					takesAfterAdd++
				}
				if ring {
					start = (start + 1) % c.Cap
				}
				if phase == 0 {
					phase = 1
				} else if phase == 2 {
					phase = 3
				}
			}
		case "peek":
			v, ok := b.peek()
			if len(model) == 0 {
				if ok || v != 0 {
					return info, fmt.Errorf("step %d: peek on empty returned (%v,%v), want (0,false)", i, v, ok)
				}
			} else if !ok || v != model[0] {
				return info, fmt.Errorf("step %d: peek returned (%v,%v), want (%v,true)", i, v, ok, model[0])
			}
		case "clear":
			b.clear()
			model = nil
			start = 0
		case "badload":
			// a load that fails leaves the container exactly as it was (nothing
			// dequeued or popped earlier comes back, nothing is lost)
			doc := []byte([]string{`{}`, `[1,"x"]`, `[1,2`, `"s"`, `7`, `[1.5]`, `[null,{}]`}[op.V%7])
			if err := b.load(doc); err == nil {
				return info, fmt.Errorf("step %d: loading %s did not fail", i, doc)
			}
			info.Label("failed-load")
		case "load":
			// a state reached through FromJSON is a reachable state.  The document is
			// what a fresh container of the same kind and capacity, brought to the
			// denoted state by plain adds, serialises to (C11's round trip), so no
			// assumption about the orientation of the array is made here.
			want := slices.Clone(op.Vs)
			if ring && len(want) > c.Cap {
				want = want[len(want)-c.Cap:]
			}
			src := build(c.Kind, c.Cap)
			for j := range want {
				if b.lifo {
					src.add(want[len(want)-1-j])
				} else {
					src.add(want[j])
				}
			}
			doc, err := src.toJSON()
			if err != nil {
				return info, fmt.Errorf("step %d: ToJSON of a fresh container holding %v failed: %v", i, want, err)
			}
			if ring && len(op.Vs) > c.Cap {
				// a document longer than the capacity: the ring keeps the LAST capacity-many
				// values.  (A queue's array lists its elements oldest first — its Values() —
				// so the over-long document is simply the array of op.Vs.)
				doc, _ = json.Marshal(op.Vs)
				info.Label("load:longer-than-capacity")
			}
			if err := b.load(doc); err != nil {
				return info, fmt.Errorf("step %d: FromJSON(%s) failed: %v", i, doc, err)
			}
			model = want
			start = 0
			info.Label("load")
		default:
			return info, fmt.Errorf("bad op %q", op.O)
		}
		// observers after every step
		if got := b.size(); got != len(model) {
			return info, fmt.Errorf("step %d (%s): Size()=%d, model %d", i, op.O, got, len(model))
		}
		if got := b.empty(); got != (len(model) == 0) {
			return info, fmt.Errorf("step %d (%s): Empty()=%v, model size %d", i, op.O, got, len(model))
		}
		if got := b.values(); !slices.Equal(got, model) && !(len(got) == 0 && len(model) == 0) {
			return info, fmt.Errorf("step %d (%s): Values()=%v, model %v", i, op.O, got, model)
		}
		if v, ok := b.peek(); len(model) > 0 && (!ok || v != model[0]) || len(model) == 0 && (ok || v != 0) {
			return info, fmt.Errorf("step %d (%s): Peek()=(%v,%v), model %v", i, op.O, v, ok, model)
		}
		if ring {
			if got := b.full(); got != (len(model) == c.Cap) {
				return info, fmt.Errorf("step %d (%s): Full()=%v with size %d cap %d", i, op.O, got, len(model), c.Cap)
			}
			ringMu.Lock()
			ringStates[[3]int{c.Cap, start, len(model)}] = struct{}{}
			ringMu.Unlock()
		}
	}
	// final drain must come out in model order and leave the container empty
	for len(model) > 0 {
		v, ok := b.take()
		if !ok || v != model[0] {
			return info, fmt.Errorf("drain: take returned (%v,%v), want (%v,true)", v, ok, model[0])
		}
		model = model[1:]
	}
	if v, ok := b.take(); ok || v != 0 || b.size() != 0 || !b.empty() || len(b.values()) != 0 {
		return info, fmt.Errorf("after drain: take=(%v,%v) size=%d", v, ok, b.size())
	}
	if ring {
		info.NonTrivial = evictions >= 1 && takes >= 1 && enq > c.Cap
		if evictions > 0 {
			info.Label("ring:evicted")
		}
		if enq > c.Cap {
			info.Label("ring:wrapped")
		}
	} else {
		info.NonTrivial = phase == 3
	}
	if emptyTake {
		info.Label("take-on-empty")
	}
	return info, nil
}

var ringCaps = []int{1, 2, 3, 4, 5, 6, 7, 8, 9, 16, 17}

func gen(kind string) func(t *rapid.T) Case {
	return func(t *rapid.T) Case {
		c := Case{Kind: kind}
		if kind == "circularbuffer" {
			c.Cap = ringCaps[rapid.IntRange(0, len(ringCaps)-1).Draw(t, "cap")]
		}
		maxN := 40
		if c.Cap > 9 {
			maxN = 80
		}
		n := rapid.IntRange(0, maxN).Draw(t, "n")
		next := 1
		for i := 0; i < n; i++ {
			switch dom.Weighted(t, "op", 1, 50, 30, 8, 2, 2) {
			case 5:
				if rapid.IntRange(0, 2).Draw(t, "bad") == 0 {
					c.Ops = append(c.Ops, Op{O: "badload", V: rapid.IntRange(0, 6).Draw(t, "which")})
					continue
				}
				c.Ops = append(c.Ops, Op{O: "load", Vs: rapid.SliceOfN(rapid.IntRange(0, 9), 0, 12).Draw(t, "doc")})
			case 0: // nop (shrink target)
			case 1:
				v := next
				next++
				if rapid.IntRange(0, 9).Draw(t, "dup") == 0 {
					v = rapid.IntRange(0, 3).Draw(t, "v") // duplicates and the zero value
				}
				c.Ops = append(c.Ops, Op{O: "add", V: v})
			case 2:
				c.Ops = append(c.Ops, Op{O: "take"})
			case 3:
				c.Ops = append(c.Ops, Op{O: "peek"})
			case 4:
				c.Ops = append(c.Ops, Op{O: "clear"})
			}
		}
		return c
	}
}

var kinds = []string{"arraystack", "linkedliststack", "arrayqueue", "linkedlistqueue", "circularbuffer"}

// genLong: hundreds of operations — stacks and queues that grow past the array
// list's capacity thresholds (64, 128, 256) and shrink again, rings of
// capacities the short target does not use (10..15, 31..33, 64, 100) with
// hundreds of wrap-arounds.
var longCaps = []int{10, 11, 12, 13, 14, 15, 31, 32, 33, 64, 100, 255, 256, 257, 300, 1000, 1025, 2048, 4100}

func genLong(kind string) func(t *rapid.T) Case {
	return func(t *rapid.T) Case {
		c := Case{Kind: kind}
		if kind == "circularbuffer" {
			c.Cap = longCaps[rapid.IntRange(0, len(longCaps)-1).Draw(t, "cap")]
		}
		next := 1
		phases := rapid.IntRange(1, 8).Draw(t, "phases")
		for p := 0; p < phases; p++ {
			hiLen := pbt.Size(220)
			if c.Cap > 200 {
				hiLen = c.Cap + c.Cap/2 // phases long enough to fill and wrap a large ring
			}
			n := rapid.IntRange(1, hiLen).Draw(t, "len")
			switch dom.Weighted(t, "phase", 5, 4, 4, 1, 1) {
			case 4:
				c.Ops = append(c.Ops, Op{O: "load", Vs: rapid.SliceOfN(rapid.IntRange(0, 50), 0, 150).Draw(t, "doc")})
			case 0: // grow
				for i := 0; i < n; i++ {
					c.Ops = append(c.Ops, Op{O: "add", V: next})
					next++
				}
			case 1: // shrink
				for i := 0; i < n; i++ {
					c.Ops = append(c.Ops, Op{O: "take"})
				}
			case 2: // steady state: add one, take one
				for i := 0; i < n; i++ {
					c.Ops = append(c.Ops, Op{O: "add", V: next}, Op{O: "take"})
					next++
				}
			default:
				c.Ops = append(c.Ops, Op{O: "clear"})
			}
		}
		return c
	}
}

func TestGenerated(t *testing.T) {
	for _, k := range kinds {
		pbt.Run(t, pbt.Target[Case]{Name: k + "/long", Checks: 1000, Gen: genLong(k), Check: check})
	}
	for _, k := range kinds {
		n := 20000
		if k == "circularbuffer" {
			n = 40000
		}
		pbt.Run(t, pbt.Target[Case]{Name: k, Checks: n, Gen: gen(k), Check: check})
	}
}

// TestExhaustive enumerates every sequence over {add, take, clear} of one
// fixed length (all shorter sequences are its prefixes, and the oracle runs
// after every step) for ring capacities 1..4 and for the four unbounded kinds.
func TestExhaustive(t *testing.T) {
	L := 10
	if pbt.Thorough() {
		L = 13
	}
	type cfg struct {
		kind string
		cap  int
	}
	cfgs := []cfg{{"circularbuffer", 1}, {"circularbuffer", 2}, {"circularbuffer", 3}, {"circularbuffer", 4},
		{"arraystack", 0}, {"linkedliststack", 0}, {"arrayqueue", 0}, {"linkedlistqueue", 0}}
	note := fmt.Sprintf("every sequence over {add,take,clear} of length %d (prefix-closed), ring capacities 1..4 and the four unbounded kinds", L)
	pbt.Enumerate(t, pbt.Target[Case]{Name: "exhaustive", Check: check}, note, func(yield func(Case) bool) {
		idx := 0
		for _, cf := range cfgs {
			total := 1
			for i := 0; i < L; i++ {
				total *= 3
			}
			for code := 0; code < total; code++ {
				idx++
				if !pbt.Mine(idx) {
					continue
				}
				c := Case{Kind: cf.kind, Cap: cf.cap, Ops: make([]Op, L)}
				x := code
				for i := 0; i < L; i++ {
					switch x % 3 {
					case 0:
						c.Ops[i] = Op{O: "add", V: i + 1}
					case 1:
						c.Ops[i] = Op{O: "take"}
					case 2:
						c.Ops[i] = Op{O: "clear"}
					}
					x /= 3
				}
				if !yield(c) {
					return
				}
			}
		}
	})
}

// TestZZRingCoverage reports which (capacity, start, size) ring states were
// visited; a capacity c has c*(c+1) such states.
func TestZZRingCoverage(t *testing.T) {
	ringMu.Lock()
	defer ringMu.Unlock()
	for k := range ringStates {
		pbt.AddToSet("ring_states(cap|start,size)", fmt.Sprintf("cap=%02d of %d|%d,%d", k[0], k[0]*(k[0]+1), k[1], k[2]))
	}
}
