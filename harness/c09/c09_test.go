// C09 — linked hash containers iterate in insertion order.
package c09

import (
	"bytes"
	"encoding/json"
	"fmt"
	"slices"
	"strconv"
	"strings"
	"testing"

	"github.com/emirpasic/gods/v2/maps/linkedhashmap"
	"github.com/emirpasic/gods/v2/sets/linkedhashset"
	"pgregory.net/rapid"

	"verif/harness/internal/dom"
	"verif/harness/internal/pbt"
	"verif/harness/internal/via"
)

func TestMain(m *testing.M) { pbt.Main(m, "C09") }

type Op struct {
	O  string `json:"o"` // put (K,V) | add (Ks) | remove (Ks) | clear
	K  int    `json:"k,omitempty"`
	V  int    `json:"v,omitempty"`
	Ks []int  `json:"ks,omitempty"`
}

type Case struct {
	Kind string `json:"kind"` // map | set
	Keys string `json:"keys"` // int | string
	Init []int  `json:"init,omitempty"`
	Ops  []Op   `json:"ops"`
}

// string key domain: includes characters JSON must escape and one key whose
// text is contained in another
var strKeys = []string{"a", "b", "ab", "q\"x", "é<&", " ", "0", "b\\", "u\x1f4", "\U000e0001"}

func strKey(i int) string { return strKeys[((i%len(strKeys))+len(strKeys))%len(strKeys)] }
func intKey(i int) int    { return i }

// jsonKeyOrder reads the keys of a JSON object / the elements of a JSON array in textual order.
func jsonKeyOrder(b []byte, object bool) ([]string, error) {
	dec := json.NewDecoder(bytes.NewReader(b))
	dec.UseNumber()
	tok, err := dec.Token()
	if err != nil {
		return nil, err
	}
	want := json.Delim('[')
	if object {
		want = json.Delim('{')
	}
	if tok != want {
		return nil, fmt.Errorf("ToJSON does not start with %v: %s", want, b)
	}
	var out []string
	for dec.More() {
		tok, err := dec.Token()
		if err != nil {
			return nil, err
		}
		switch v := tok.(type) {
		case string:
			out = append(out, v)
		case json.Number:
			out = append(out, v.String())
		default:
			return nil, fmt.Errorf("unexpected token %v in %s", tok, b)
		}
		if object {
			var skip json.RawMessage
			if err := dec.Decode(&skip); err != nil {
				return nil, err
			}
		}
	}
	return out, nil
}

type pair[K comparable] struct {
	k K
	v int
}

func checkK[K comparable](c Case, mk func(int) K, text func(K) string) (pbt.Info, error) {
	var info pbt.Info
	isMap := c.Kind == "map"
	m := linkedhashmap.New[K, int]()
	var initK []K
	for _, i := range c.Init {
		initK = append(initK, mk(i))
	}
	s := linkedhashset.New(initK...)
	var model []pair[K] // insertion order since last absent
	idx := func(k K) int { return slices.IndexFunc(model, func(p pair[K]) bool { return p.k == k }) }
	put := func(k K, v int) (wasLive bool) {
		if i := idx(k); i >= 0 {
			model[i].v = v
			return true
		}
		model = append(model, pair[K]{k, v})
		return false
	}
	if !isMap {
		for _, k := range initK {
			put(k, 0)
		}
	}
	removedOnce := map[K]bool{}
	var rePut, reInsert bool
	// ONE long-lived iterator per container, made before anything happens and rewound
	// after every step: "Begin resets the iterator to its initial state", so it must
	// enumerate the CURRENT keys (a Clear or a load that swaps the underlying list
	// or table away from under it would leave it on the old content)
	mIt, sIt := m.Iterator(), s.Iterator()
	observe := func(step int, what string) error {
		var wantK []K
		var wantV []int
		for _, p := range model {
			wantK = append(wantK, p.k)
			wantV = append(wantV, p.v)
		}
		var gotK []K
		var itK []K
		var itV, eachV []int
		var eachK []K
		var js []byte
		var err error
		if isMap {
			gotK = m.Keys()
			if gv := m.Values(); !slices.Equal(gv, wantV) && len(gv)+len(wantV) > 0 {
				return fmt.Errorf("step %d %s: Values()=%v, want %v (insertion order)", step, what, gv, wantV)
			}
			for it := m.Iterator(); it.Next(); {
				itK = append(itK, it.Key())
				itV = append(itV, it.Value())
			}
			m.Each(func(k K, v int) { eachK = append(eachK, k); eachV = append(eachV, v) })
			if !slices.Equal(itV, wantV) && len(itV)+len(wantV) > 0 {
				return fmt.Errorf("step %d %s: iterator values %v, want %v", step, what, itV, wantV)
			}
			if !slices.Equal(eachV, wantV) && len(eachV)+len(wantV) > 0 {
				return fmt.Errorf("step %d %s: Each values %v, want %v", step, what, eachV, wantV)
			}
			// backward iteration is the reverse
			var back []K
			it := m.Iterator()
			for it.End(); it.Prev(); {
				back = append(back, it.Key())
			}
			slices.Reverse(back)
			if !slices.Equal(back, wantK) && len(back)+len(wantK) > 0 {
				return fmt.Errorf("step %d %s: backward iteration (reversed) %v, want %v", step, what, back, wantK)
			}
			js, err = m.ToJSON()
			var long []K
			if step%2 == 0 {
				for mIt.Begin(); mIt.Next(); {
					long = append(long, mIt.Key())
				}
			} else {
				for mIt.End(); mIt.Prev(); {
					long = append(long, mIt.Key())
				}
				slices.Reverse(long)
			}
			if !slices.Equal(long, wantK) && len(long)+len(wantK) > 0 {
				return fmt.Errorf("step %d %s: the long-lived iterator, rewound, enumerates %v, want insertion order %v", step, what, long, wantK)
			}
		} else {
			var long []K
			if step%2 == 0 {
				for sIt.Begin(); sIt.Next(); {
					long = append(long, sIt.Value())
				}
			} else {
				for sIt.End(); sIt.Prev(); {
					long = append(long, sIt.Value())
				}
				slices.Reverse(long)
			}
			if !slices.Equal(long, wantK) && len(long)+len(wantK) > 0 {
				return fmt.Errorf("step %d %s: the long-lived iterator, rewound, enumerates %v, want insertion order %v", step, what, long, wantK)
			}
			gotK = s.Values()
			it := s.Iterator()
			for it.Next() {
				itK = append(itK, it.Value())
				if it.Index() != len(itK)-1 {
					return fmt.Errorf("step %d %s: iterator Index()=%d at position %d", step, what, it.Index(), len(itK)-1)
				}
			}
			s.Each(func(i int, k K) {
				eachK = append(eachK, k)
				eachV = append(eachV, i)
			})
			for i, v := range eachV {
				if v != i {
					return fmt.Errorf("step %d %s: Each passed index %d at position %d", step, what, v, i)
				}
			}
			js, err = s.ToJSON()
		}
		if err != nil {
			return fmt.Errorf("step %d %s: ToJSON failed: %v", step, what, err)
		}
		for _, x := range []struct {
			name string
			got  []K
		}{{"Keys()/Values()", gotK}, {"iterator", itK}, {"Each", eachK}} {
			if !slices.Equal(x.got, wantK) && len(x.got)+len(wantK) > 0 {
				return fmt.Errorf("step %d %s: %s order %v, want insertion order %v", step, what, x.name, x.got, wantK)
			}
		}
		order, err := jsonKeyOrder(js, isMap)
		if err != nil {
			return fmt.Errorf("step %d %s: ToJSON()=%s: %v", step, what, js, err)
		}
		var wantText []string
		for _, k := range wantK {
			wantText = append(wantText, text(k))
		}
		if !slices.Equal(order, wantText) && len(order)+len(wantText) > 0 {
			return fmt.Errorf("step %d %s: ToJSON()=%s lists %q, want insertion order %q", step, what, js, order, wantText)
		}
		return nil
	}
	if err := observe(-1, "New"); err != nil {
		return info, err
	}
	live3 := false
	for i, op := range c.Ops {
		switch op.O {
		case "put":
			k := mk(op.K)
			if removedOnce[k] && idx(k) < 0 {
				reInsert = true
			}
			if put(k, op.V) {
				rePut = true
			}
			if isMap {
				m.Put(k, op.V)
			} else {
				s.Add(k)
			}
		case "add":
			var ks []K
			for _, x := range op.Ks {
				k := mk(x)
				ks = append(ks, k)
				if removedOnce[k] && idx(k) < 0 {
					reInsert = true
				}
				if put(k, 0) {
					rePut = true
				}
			}
			if isMap {
				for _, k := range ks {
					m.Put(k, 0)
				}
			} else {
				s.Add(ks...)
			}
		case "remove":
			var ks []K
			for _, x := range op.Ks {
				k := mk(x)
				ks = append(ks, k)
				if j := idx(k); j >= 0 {
					model = slices.Delete(model, j, j+1)
					removedOnce[k] = true
				}
			}
			if isMap {
				for _, k := range ks {
					m.Remove(k)
				}
			} else {
				s.Remove(ks...)
			}
		case "clear":
			for _, p := range model {
				removedOnce[p.k] = true
			}
			model = nil
			if isMap {
				m.Clear()
			} else {
				s.Clear()
			}
		case "load":
			// a state reached through FromJSON is a reachable state: the members of the
			// document, in document order (first occurrence), become the content
			for _, p := range model {
				removedOnce[p.k] = true
			}
			model = nil
			var sb strings.Builder
			for j, x := range op.Ks {
				k := mk(x)
				// a repeated member name (adjacent or not) is what repeated Put would
				// make of it: the key keeps its first position and takes the last value
				put(k, 100+j)
				if sb.Len() > 0 {
					sb.WriteByte(',')
				}
				kj, _ := json.Marshal(k)
				if isMap {
					if _, isStr := any(k).(string); !isStr {
						kj, _ = json.Marshal(string(kj))
					}
					fmt.Fprintf(&sb, "%s:%d", kj, 100+j)
				} else {
					sb.Write(kj)
				}
			}
			var lerr error
			if isMap {
				lerr = via.Auto(m, []byte("{"+sb.String()+"}"))
			} else {
				for j := range model {
					model[j].v = 0
				}
				lerr = via.Auto(s, []byte("["+sb.String()+"]"))
			}
			if lerr != nil {
				return info, fmt.Errorf("step %d: FromJSON(%s) failed: %v", i, sb.String(), lerr)
			}
			info.Label("load")
			// Where a member name is repeated with other names in between, its place
			// (first or last occurrence) is not pinned down by the property: the
			// enumeration must still hold exactly the denoted keys, once each, and the
			// model then adopts the container's choice.
			if isMap {
				apart := false
				for a, x := range op.Ks {
					for b := a + 2; b < len(op.Ks); b++ {
						if op.Ks[b] == x && slices.ContainsFunc(op.Ks[a+1:b], func(y int) bool { return y != x }) {
							apart = true
						}
					}
				}
				if apart {
					info.Label("load:repeated-member-name")
					got := m.Keys()
					if len(got) != len(model) {
						return info, fmt.Errorf("step %d: after FromJSON({%s}) Keys()=%v, the document denotes %d distinct keys", i, sb.String(), got, len(model))
					}
					var adopted []pair[K]
					for _, k := range got {
						j := idx(k)
						if j < 0 || slices.ContainsFunc(adopted, func(p pair[K]) bool { return p.k == k }) {
							return info, fmt.Errorf("step %d: after FromJSON({%s}) Keys()=%v lists a key twice or a key the document does not denote", i, sb.String(), got)
						}
						adopted = append(adopted, model[j])
					}
					model = adopted
				}
			}
		default:
			return info, fmt.Errorf("bad op %q", op.O)
		}
		if len(model) >= 3 {
			live3 = true
		}
		if err := observe(i, fmt.Sprintf("%s(k=%d,v=%d,ks=%v)", op.O, op.K, op.V, op.Ks)); err != nil {
			return info, err
		}
	}
	if rePut {
		info.Label("re-put-of-live-key")
	}
	if reInsert {
		info.Label("remove-then-reinsert")
	}
	info.NonTrivial = live3 && rePut && reInsert
	return info, nil
}

func check(c Case) (pbt.Info, error) {
	if c.Keys == "int" {
		return checkK(c, intKey, func(k int) string { return strconv.Itoa(k) })
	}
	return checkK(c, strKey, func(k string) string { return k })
}

func gen(kind, keys string) func(t *rapid.T) Case {
	return func(t *rapid.T) Case {
		c := Case{Kind: kind, Keys: keys}
		hi := 5
		if keys == "string" {
			hi = len(strKeys) - 1
		}
		long := keys == "int" && rapid.IntRange(0, 7).Draw(t, "long") == 0
		if long {
			hi = 70 // dozens of live keys, long histories, variadics of up to 12
		}
		if kind == "set" {
			c.Init = rapid.SliceOfN(rapid.IntRange(0, hi), 0, 4).Draw(t, "init")
		}
		n := rapid.IntRange(0, 30).Draw(t, "n")
		maxVar := 4
		if long {
			n = rapid.IntRange(40, 160).Draw(t, "nlong")
			maxVar = 12
		}
		v := 1
		for i := 0; i < n; i++ {
			switch dom.Weighted(t, "op", 1, 40, 15, 30, 1, 2) {
			case 5:
				c.Ops = append(c.Ops, Op{O: "load", Ks: rapid.SliceOfN(rapid.IntRange(0, hi), 0, 3*maxVar).Draw(t, "doc")})
			case 0:
			case 1:
				c.Ops = append(c.Ops, Op{O: "put", K: rapid.IntRange(0, hi).Draw(t, "k"), V: v})
				v++
			case 2:
				c.Ops = append(c.Ops, Op{O: "add", Ks: rapid.SliceOfN(rapid.IntRange(0, hi), 0, maxVar).Draw(t, "ks")})
			case 3:
				c.Ops = append(c.Ops, Op{O: "remove", Ks: rapid.SliceOfN(rapid.IntRange(0, hi), 1, max(2, maxVar/2)).Draw(t, "ks")})
			case 4:
				c.Ops = append(c.Ops, Op{O: "clear"})
			}
		}
		return c
	}
}

// genSoak: one container instance driven for many hundreds of operations
// (hundreds of removals and re-insertions over a handful of keys), for
// counters, caches and rebuild thresholds that only a long life reaches.
func genSoak(kind string) func(t *rapid.T) Case {
	return func(t *rapid.T) Case {
		c := Case{Kind: kind, Keys: "int"}
		keys := rapid.IntRange(3, 14).Draw(t, "keys")
		n := rapid.IntRange(300, pbt.Size(1000)).Draw(t, "n")
		pattern := rapid.SliceOfN(rapid.IntRange(0, 5), 4, 12).Draw(t, "pattern")
		for i := 0; i < n; i++ {
			switch pattern[i%len(pattern)] {
			case 0, 1:
				c.Ops = append(c.Ops, Op{O: "remove", Ks: []int{(i * 5) % keys}})
			case 2:
				c.Ops = append(c.Ops, Op{O: "remove", Ks: []int{i % keys, (i + 3) % keys}})
			default:
				c.Ops = append(c.Ops, Op{O: "put", K: (i * 3) % keys, V: i + 1})
			}
		}
		return c
	}
}

func TestGenerated(t *testing.T) {
	for _, kind := range []string{"map", "set"} {
		pbt.Run(t, pbt.Target[Case]{Name: kind + "/soak", Checks: 25, Gen: genSoak(kind), Check: check})
	}
	for _, kind := range []string{"map", "set"} {
		for _, keys := range []string{"int", "string"} {
			pbt.Run(t, pbt.Target[Case]{Name: kind + "/" + keys, Checks: 12000, Gen: gen(kind, keys), Check: check})
		}
	}
}

// TestExhaustive: every sequence of a fixed length over put/remove of 3 keys
// (and clear), for the map and the set with int keys.
func TestExhaustive(t *testing.T) {
	L := 6
	if pbt.Thorough() {
		L = 8
	}
	var alphabet []Op
	for k := 0; k < 3; k++ {
		alphabet = append(alphabet, Op{O: "put", K: k}, Op{O: "remove", Ks: []int{k}})
	}
	alphabet = append(alphabet, Op{O: "clear"})
	note := fmt.Sprintf("every sequence of length %d over put/remove of 3 keys and clear (7 operations), map and set, int and string keys", L)
	pbt.Enumerate(t, pbt.Target[Case]{Name: "exhaustive", Check: check}, note, func(yield func(Case) bool) {
		total := 1
		for i := 0; i < L; i++ {
			total *= len(alphabet)
		}
		idx := 0
		for _, kind := range []string{"map", "set"} {
			for _, keys := range []string{"int", "string"} {
				for code := 0; code < total; code++ {
					idx++
					if !pbt.Mine(idx) {
						continue
					}
					c := Case{Kind: kind, Keys: keys, Ops: make([]Op, L)}
					x := code
					for i := 0; i < L; i++ {
						c.Ops[i] = alphabet[x%len(alphabet)]
						if c.Ops[i].O == "put" {
							c.Ops[i].V = i + 1
						}
						x /= len(alphabet)
					}
					if !yield(c) {
						return
					}
				}
			}
		}
	})
}
