// C01 — key-value containers behave as a map under every history.
package c01

import (
	"fmt"
	"slices"
	"sort"
	"testing"

	"pgregory.net/rapid"

	"verif/harness/internal/dom"
	"verif/harness/internal/kvh"
	"verif/harness/internal/pbt"
)

func TestMain(m *testing.M) { pbt.Main(m, "C01") }

type flags struct {
	bigRemoval bool // removal of a present key while >= 3 keys live
	overwrite  bool // Put on a live key
}

// sortedCopy returns xs sorted ascending (for multiset comparison).
func sortedCopy(xs []int) []int {
	out := append([]int(nil), xs...)
	sort.Ints(out)
	return out
}

func run(c kvh.Case) (flags, pbt.Info, error) {
	var fl flags
	var info pbt.Info
	if kvh.Bidi(c.Kind) {
		return runBidi(c)
	}
	box := kvh.New(c)
	cmpID := c.Cmp
	if !kvh.Ordered(c.Kind) {
		cmpID = dom.Nat
	}
	m := kvh.NewModel(cmpID)
	ops := kvh.Expand(c.Ops)
	lastRemoved, haveRemoved := 0, false
	seen := map[string]bool{}
	label := func(l string) {
		if !seen[l] {
			seen[l] = true
			info.Label(l)
		}
	}
	if dom.Coarse(cmpID) {
		label("coarse-comparator")
	}
	fail := func(i int, op kvh.Op, format string, a ...any) (flags, pbt.Info, error) {
		return fl, info, fmt.Errorf("%s step %d %s(%d,%d): %s", c.Describe(), i, op.O, op.K, op.V, fmt.Sprintf(format, a...))
	}
	for i, op := range ops {
		switch op.O {
		case "put":
			if m.Put(op.K, op.V) {
				fl.overwrite = true
			}
			box.Put(op.K, op.V)
			if v, ok := box.Get(op.K); !ok || v != op.V {
				return fail(i, op, "Get right after Put = (%d,%v), want (%d,true)", v, ok, op.V)
			}
		case "rem":
			present := false
			if _, ok := m.Get(op.K); ok {
				present = true
				if m.Len() >= 3 {
					fl.bigRemoval = true
				}
				// structural labels, read from exported links before the call
				switch {
				case box.RBT != nil:
					if n := box.RBT.GetNode(op.K); n != nil {
						if n.Left != nil && n.Right != nil {
							label("rm:two-children")
						}
						if n == box.RBT.Root {
							label("rm:root")
						}
					}
				case box.AVL != nil:
					if n := box.AVL.GetNode(op.K); n != nil {
						if n.Children[0] != nil && n.Children[1] != nil {
							label("rm:two-children")
						}
						if n == box.AVL.Root {
							label("rm:root")
						}
					}
				case box.BT != nil:
					if n := box.BT.GetNode(op.K); n != nil && len(n.Children) > 0 {
						label("rm:internal-node")
					}
				}
			} else {
				label("rm:absent")
			}
			hBefore := 0
			if box.BT != nil {
				hBefore = box.BT.Height()
			}
			m.Remove(op.K)
			box.Remove(op.K)
			if box.BT != nil && present && box.BT.Height() < hBefore {
				label("btree:height-shrank")
			}
			if v, ok := box.Get(op.K); ok || v != 0 {
				return fail(i, op, "Get right after Remove = (%d,%v), want (0,false)", v, ok)
			}
			lastRemoved, haveRemoved = op.K, true
		case "get":
			wv, wok := m.Get(op.K)
			if v, ok := box.Get(op.K); ok != wok || v != wv {
				return fail(i, op, "Get = (%d,%v), want (%d,%v)", v, ok, wv, wok)
			}
		case "clear":
			m.Clear()
			box.Clear()
			label("clear")
		case "load":
			// state reached through FromJSON is a history too: the document replaces
			// the content, and everything below must keep holding from there
			pairs, replace, err := box.DoLoad(c.Cmp, op)
			if err != nil {
				return fail(i, op, "%v", err)
			}
			if replace {
				m.Clear()
				for _, p := range pairs {
					m.Put(p[0], p[1])
				}
			} else {
				label("load:rejected") // not a Put, Remove or Clear: everything below must still hold
			}
			if op.B == 2 {
				label("load:null")
			}
			label("load")
		case "probe":
			continue
		default:
			return fl, info, fmt.Errorf("bad op %q", op.O)
		}
		if i < 48 || i%8 == 0 {
			if err := box.Poke(i); err != nil {
				return fail(i, op, "%v", err)
			}
		}
		// ---- observers after every step ----
		n := m.Len()
		if got := box.Size(); got != n {
			return fail(i, op, "Size()=%d, model has %d live keys", got, n)
		}
		if got := box.Empty(); got != (n == 0) {
			return fail(i, op, "Empty()=%v with %d live keys", got, n)
		}
		ents := m.Sorted()
		if n > 0 { // a present key
			e := ents[(i*7)%n]
			if v, ok := box.Get(e.K); !ok || v != e.V {
				return fail(i, op, "Get(present %d) = (%d,%v), want (%d,true)", e.K, v, ok, e.V)
			}
		}
		// an absent key near the touched one
		for _, k := range []int{op.K + 1, op.K - 1} {
			wv, wok := m.Get(k)
			if v, ok := box.Get(k); ok != wok || v != wv {
				return fail(i, op, "Get(%d) = (%d,%v), want (%d,%v)", k, v, ok, wv, wok)
			}
		}
		if haveRemoved {
			wv, wok := m.Get(lastRemoved)
			if v, ok := box.Get(lastRemoved); ok != wok || v != wv {
				return fail(i, op, "Get(previously removed %d) = (%d,%v), want (%d,%v)", lastRemoved, v, ok, wv, wok)
			}
		}
		if n <= 48 || i%8 == 0 && n <= 2048 || i%128 == 0 || i == len(ops)-1 {
			if err := compareAll(c.Kind, box, m); err != nil {
				return fail(i, op, "%v", err)
			}
		}
	}
	info.NonTrivial = fl.bigRemoval && fl.overwrite
	return fl, info, nil
}

func compareAll(kind string, box *kvh.Box, m *kvh.Model) error {
	keys, vals := box.Keys(), box.Values()
	n := m.Len()
	if len(keys) != n || len(vals) != n {
		return fmt.Errorf("len(Keys())=%d len(Values())=%d, model has %d live keys", len(keys), len(vals), n)
	}
	switch kind {
	case kvh.HashMap:
		var wk, wv []int
		for _, e := range m.Sorted() {
			wk = append(wk, e.K)
			wv = append(wv, e.V)
		}
		if !slices.Equal(sortedCopy(keys), sortedCopy(wk)) {
			return fmt.Errorf("Keys()=%v is not the live key set %v", keys, wk)
		}
		if !slices.Equal(sortedCopy(vals), sortedCopy(wv)) {
			return fmt.Errorf("Values()=%v is not the multiset of current values %v", vals, wv)
		}
	case kvh.LinkedHashMap:
		for i, e := range m.BySeq() {
			if keys[i] != e.K || vals[i] != e.V {
				return fmt.Errorf("position %d holds (%d,%d), model (insertion order) has (%d,%d); Keys()=%v Values()=%v", i, keys[i], vals[i], e.K, e.V, keys, vals)
			}
		}
	default: // comparator-ordered, position-aligned
		for i, e := range m.Sorted() {
			if !m.Same(keys[i], e.K) || vals[i] != e.V {
				return fmt.Errorf("position %d holds (%d,%d), model (comparator order) has (%d,%d); Keys()=%v Values()=%v", i, keys[i], vals[i], e.K, e.V, keys, vals)
			}
		}
	}
	return nil
}

func runBidi(c kvh.Case) (flags, pbt.Info, error) {
	var fl flags
	var info pbt.Info
	box := kvh.New(c)
	m := kvh.NewBidiModel()
	ops := kvh.Expand(c.Ops)
	fail := func(i int, op kvh.Op, format string, a ...any) (flags, pbt.Info, error) {
		return fl, info, fmt.Errorf("%s step %d %s(%d,%d): %s", c.Describe(), i, op.O, op.K, op.V, fmt.Sprintf(format, a...))
	}
	seen := map[string]bool{}
	label := func(l string) {
		if !seen[l] {
			seen[l] = true
			info.Label(l)
		}
	}
	for i, op := range ops {
		switch op.O {
		case "put":
			kh, vh := m.Put(op.K, op.V)
			if kh {
				fl.overwrite = true
			}
			if vh {
				label("bidi:value-collision")
			}
			box.Put(op.K, op.V)
		case "rem":
			if _, ok := m.Fwd[op.K]; ok && len(m.Fwd) >= 3 {
				fl.bigRemoval = true
			}
			m.Remove(op.K)
			box.Remove(op.K)
		case "get":
		case "clear":
			m.Clear()
			box.Clear()
		case "load":
			pairs, replace, err := box.DoLoad(c.Cmp, op)
			if err != nil {
				return fail(i, op, "%v", err)
			}
			if replace {
				m.Clear()
				for _, p := range pairs {
					m.Put(p[0], p[1])
				}
			} else {
				label("load:rejected") // not a Put, Remove or Clear: everything below must still hold
			}
			if op.B == 2 {
				label("load:null")
			}
			label("load")
		case "probe":
			continue
		}
		n := len(m.Fwd)
		if got := box.Size(); got != n {
			return fail(i, op, "Size()=%d, model has %d pairs", got, n)
		}
		if got := box.Empty(); got != (n == 0) {
			return fail(i, op, "Empty()=%v with %d pairs", got, n)
		}
		for _, k := range []int{op.K, op.K + 1, op.K - 1, op.V} {
			wv, wok := m.Fwd[k]
			if v, ok := box.Get(k); ok != wok || v != wv {
				return fail(i, op, "Get(%d) = (%d,%v), want (%d,%v)", k, v, ok, wv, wok)
			}
		}
		if n > 2048 && i%128 != 0 && i != len(ops)-1 {
			continue // thousands of pairs: the full listing is compared every 128th step
		}
		keys, vals := box.Keys(), box.Values()
		var wk, wv []int
		for k, v := range m.Fwd {
			wk = append(wk, k)
			wv = append(wv, v)
		}
		if c.Kind == kvh.TreeBidi {
			if !slices.Equal(keys, dom.SortedBy(c.Cmp, wk)) {
				return fail(i, op, "Keys()=%v, want %v (key comparator order)", keys, dom.SortedBy(c.Cmp, wk))
			}
			if !slices.Equal(vals, dom.SortedBy(c.VCmp, wv)) {
				return fail(i, op, "Values()=%v, want %v (value comparator order)", vals, dom.SortedBy(c.VCmp, wv))
			}
		} else {
			if !slices.Equal(sortedCopy(keys), sortedCopy(wk)) {
				return fail(i, op, "Keys()=%v, want the set %v", keys, sortedCopy(wk))
			}
			if !slices.Equal(sortedCopy(vals), sortedCopy(wv)) {
				return fail(i, op, "Values()=%v, want the set %v", vals, sortedCopy(wv))
			}
		}
		// every listed key maps to its current value
		for _, k := range keys {
			if v, ok := box.Get(k); !ok || v != m.Fwd[k] {
				return fail(i, op, "Get(listed key %d) = (%d,%v), want (%d,true)", k, v, ok, m.Fwd[k])
			}
		}
	}
	info.NonTrivial = fl.bigRemoval && fl.overwrite
	return fl, info, nil
}

func check(c kvh.Case) (pbt.Info, error) {
	_, info, err := run(c)
	return info, err
}

func params(kind string) kvh.GenParams {
	p := kvh.GenParams{Kind: kind, MaxOps: 45, RunMax: 24, Loads: true, BadLoads: true}
	switch kind {
	case kvh.TreeMap, kvh.RBT, kvh.AVL, kvh.BTree:
		p.Cmps = dom.AllCmps
	case kvh.TreeBidi:
		p.Cmps = dom.TotalCmps
		p.SmallVals = true
	case kvh.HashBidi:
		p.SmallVals = true
	}
	return p
}

// wideParams: B-trees of high order filled with hundreds of keys, so that nodes
// really hold dozens of entries (per-node search strategies, wide splits and merges).
// genBigDrain: thousands of live keys (past 4096 and 8192), then most of them removed
// again — oldest first, newest first or strided — and a few more operations: maps
// that release or rebuild their storage when they have shrunk far below their peak.
func genBigDrain(kind string) func(t *rapid.T) kvh.Case {
	return func(t *rapid.T) kvh.Case {
		c := kvh.Case{Kind: kind}
		if kvh.Ordered(kind) {
			c.Cmp = []string{dom.Nat, dom.Rev}[rapid.IntRange(0, 1).Draw(t, "cmp")]
		}
		if kind == kvh.TreeBidi {
			c.VCmp = dom.Nat
		}
		if kind == kvh.BTree {
			c.Order = []int{3, 4, 16, 129}[rapid.IntRange(0, 3).Draw(t, "order")]
		}
		n := []int{4200, 8300, 9100}[rapid.IntRange(0, 2).Draw(t, "peak")]
		c.Ops = append(c.Ops, kvh.Op{O: "putrun", K: 0, V: 1, N: n, S: 1})
		keep := rapid.IntRange(1, n/5).Draw(t, "keep")
		switch rapid.IntRange(0, 2).Draw(t, "drain") {
		case 0: // oldest first
			c.Ops = append(c.Ops, kvh.Op{O: "remrun", K: 0, N: n - keep, S: 1})
		case 1: // newest first
			c.Ops = append(c.Ops, kvh.Op{O: "remrun", K: n - 1, N: n - keep, S: -1})
		default: // every other key, then the rest from the front
			c.Ops = append(c.Ops, kvh.Op{O: "remrun", K: 0, N: n / 2, S: 2}, kvh.Op{O: "remrun", K: 1, N: n/2 - keep, S: 2})
		}
		for i := 0; i < 6; i++ {
			k := rapid.IntRange(0, n).Draw(t, "k")
			c.Ops = append(c.Ops, kvh.Op{O: "put", K: k, V: 7000 + i}, kvh.Op{O: "rem", K: rapid.IntRange(0, n).Draw(t, "r")}, kvh.Op{O: "get", K: k})
		}
		return c
	}
}

func wideParams() kvh.GenParams {
	return kvh.GenParams{Kind: kvh.BTree, MaxOps: 60, RunMax: pbt.Size(160), Cmps: []string{dom.Nat, dom.Rev, dom.Mag}, Orders: []int{34, 40, 64, 100, 128}, Ranges: []int{400, pbt.Size(3000)}}
}

func TestGenerated(t *testing.T) {
	pbt.Run(t, pbt.Target[kvh.Case]{Name: "btree/wide-nodes", Checks: 400, Gen: kvh.Gen(wideParams()), Check: check})
	for _, kind := range []string{kvh.HashMap, kvh.LinkedHashMap, kvh.HashBidi, kvh.TreeBidi, kvh.TreeMap, kvh.RBT, kvh.AVL, kvh.BTree} {
		pbt.Run(t, pbt.Target[kvh.Case]{Name: kind + "/big-drain", Checks: 1, Gen: genBigDrain(kind), Check: check})
	}
	for _, kind := range kvh.AllKinds {
		n := 12000
		switch kind {
		case kvh.RBT, kvh.AVL, kvh.BTree:
			n = 25000
		}
		pbt.Run(t, pbt.Target[kvh.Case]{Name: kind, Checks: n, Gen: kvh.Gen(params(kind)), Check: check})
	}
}

// TestExhaustive: every insertion permutation x every removal permutation of k
// distinct keys — complete over all tree shapes reachable that way.
func TestExhaustive(t *testing.T) {
	type cfg struct {
		kind  string
		order int
		k     int
	}
	var cfgs []cfg
	if pbt.Thorough() {
		cfgs = []cfg{{kvh.RBT, 0, 7}, {kvh.AVL, 0, 7}, {kvh.BTree, 3, 6}, {kvh.BTree, 4, 6}, {kvh.BTree, 5, 6}, {kvh.TreeMap, 0, 6}, {kvh.LinkedHashMap, 0, 5}, {kvh.HashMap, 0, 5}}
	} else {
		cfgs = []cfg{{kvh.RBT, 0, 5}, {kvh.AVL, 0, 5}, {kvh.BTree, 3, 5}, {kvh.BTree, 4, 5}, {kvh.BTree, 5, 5}, {kvh.TreeMap, 0, 4}, {kvh.LinkedHashMap, 0, 4}}
	}
	note := "every insertion permutation x every removal permutation of k distinct keys: "
	for _, cf := range cfgs {
		note += fmt.Sprintf("%s", cf.kind)
		if cf.order > 0 {
			note += fmt.Sprintf("(m=%d)", cf.order)
		}
		note += fmt.Sprintf(" k=%d; ", cf.k)
	}
	tg := pbt.Target[kvh.Case]{Name: "exhaustive-permutations", Check: func(c kvh.Case) (pbt.Info, error) {
		fl, info, err := run(c)
		info.NonTrivial = fl.bigRemoval // permutation pairs contain no overwrite by construction
		return info, err
	}}
	pbt.Enumerate(t, tg, note, func(yield func(kvh.Case) bool) {
		idx := 0
		for _, cf := range cfgs {
			if !kvh.PermutationPairs(cf.kind, cf.order, cf.k, &idx, pbt.Mine, yield) {
				return
			}
		}
	})
}
