// Package shape validates the exported structure of the three search trees
// against what property C07 documents — and nothing more (no colour rules).
// The in-order key check (a C02 matter) is only applied when order is true.
package shape

import (
	"fmt"
	"math"

	"github.com/emirpasic/gods/v2/trees/avltree"
	"github.com/emirpasic/gods/v2/trees/btree"
	"github.com/emirpasic/gods/v2/trees/redblacktree"
)

const maxNodes = 1 << 22 // cycle guard

// Stats describes a validated tree.
type Stats struct {
	Nodes    int // nodes (RB/AVL) or entries (B-tree)
	Height   int // longest root-to-nil path in nodes (levels for the B-tree)
	Shortest int // shortest root-to-nil path in nodes (RB)
	BNodes   int // B-tree node count
}

// RBT checks: parent links mirror child links, node count == Size(), longest
// root-to-nil path at most twice the shortest, keys strictly ascending in-order.
func RBT[K comparable, V any](t *redblacktree.Tree[K, V], order bool) (Stats, error) {
	var st Stats
	if t.Root == nil {
		if t.Size() != 0 {
			return st, fmt.Errorf("rbt: Root nil but Size()=%d", t.Size())
		}
		return st, nil
	}
	if t.Root.Parent != nil {
		return st, fmt.Errorf("rbt: root has a parent")
	}
	count := 0
	var prev *redblacktree.Node[K, V]
	var walk func(n *redblacktree.Node[K, V]) (lo, hi int, err error)
	walk = func(n *redblacktree.Node[K, V]) (int, int, error) {
		if n == nil {
			return 0, 0, nil
		}
		count++
		if count > maxNodes {
			return 0, 0, fmt.Errorf("rbt: more than %d nodes reachable (cycle?)", maxNodes)
		}
		if n.Left != nil && n.Left.Parent != n {
			return 0, 0, fmt.Errorf("rbt: left child of %v does not point back to it", n.Key)
		}
		if n.Right != nil && n.Right.Parent != n {
			return 0, 0, fmt.Errorf("rbt: right child of %v does not point back to it", n.Key)
		}
		llo, lhi, err := walk(n.Left)
		if err != nil {
			return 0, 0, err
		}
		if order && prev != nil && t.Comparator(prev.Key, n.Key) >= 0 {
			return 0, 0, fmt.Errorf("rbt: in-order keys not strictly ascending: %v then %v", prev.Key, n.Key)
		}
		prev = n
		rlo, rhi, err := walk(n.Right)
		if err != nil {
			return 0, 0, err
		}
		return 1 + min(llo, rlo), 1 + max(lhi, rhi), nil
	}
	lo, hi, err := walk(t.Root)
	if err != nil {
		return st, err
	}
	st.Nodes, st.Height, st.Shortest = count, hi, lo
	if count != t.Size() {
		return st, fmt.Errorf("rbt: %d nodes reachable but Size()=%d", count, t.Size())
	}
	if hi > 2*lo {
		return st, fmt.Errorf("rbt: longest root-to-leaf path %d is more than twice the shortest %d (n=%d)", hi, lo, count)
	}
	return st, nil
}

// AVL checks: sibling subtree heights differ by at most one, parent links
// mirror children, node count == Size(), keys strictly ascending in-order.
func AVL[K comparable, V any](t *avltree.Tree[K, V], order bool) (Stats, error) {
	var st Stats
	if t.Root == nil {
		if t.Size() != 0 {
			return st, fmt.Errorf("avl: Root nil but Size()=%d", t.Size())
		}
		return st, nil
	}
	if t.Root.Parent != nil {
		return st, fmt.Errorf("avl: root has a parent")
	}
	count := 0
	var prev *avltree.Node[K, V]
	var walk func(n *avltree.Node[K, V]) (int, error)
	walk = func(n *avltree.Node[K, V]) (int, error) {
		if n == nil {
			return 0, nil
		}
		count++
		if count > maxNodes {
			return 0, fmt.Errorf("avl: more than %d nodes reachable (cycle?)", maxNodes)
		}
		for i := 0; i < 2; i++ {
			if c := n.Children[i]; c != nil && c.Parent != n {
				return 0, fmt.Errorf("avl: child %d of %v does not point back to it", i, n.Key)
			}
		}
		lh, err := walk(n.Children[0])
		if err != nil {
			return 0, err
		}
		if order && prev != nil && t.Comparator(prev.Key, n.Key) >= 0 {
			return 0, fmt.Errorf("avl: in-order keys not strictly ascending: %v then %v", prev.Key, n.Key)
		}
		prev = n
		rh, err := walk(n.Children[1])
		if err != nil {
			return 0, err
		}
		if lh-rh > 1 || rh-lh > 1 {
			return 0, fmt.Errorf("avl: subtree heights at %v differ by more than one (%d vs %d)", n.Key, lh, rh)
		}
		return 1 + max(lh, rh), nil
	}
	h, err := walk(t.Root)
	if err != nil {
		return st, err
	}
	st.Nodes, st.Height = count, h
	if count != t.Size() {
		return st, fmt.Errorf("avl: %d nodes reachable but Size()=%d", count, t.Size())
	}
	return st, nil
}

// BTree checks the documented B-tree shape for order m.
func BTree[K comparable, V any](t *btree.Tree[K, V], m int, order bool) (Stats, error) {
	var st Stats
	if t.Root == nil {
		if t.Size() != 0 {
			return st, fmt.Errorf("btree: Root nil but Size()=%d", t.Size())
		}
		if h := t.Height(); h != 0 {
			return st, fmt.Errorf("btree: empty tree reports Height()=%d", h)
		}
		return st, nil
	}
	if t.Root.Parent != nil {
		return st, fmt.Errorf("btree: root has a parent")
	}
	minKeys := (m+1)/2 - 1
	leafDepth := -1
	entries, nodes := 0, 0
	var prev *btree.Entry[K, V]
	var walk func(n *btree.Node[K, V], depth int) error
	walk = func(n *btree.Node[K, V], depth int) error {
		nodes++
		if nodes > maxNodes {
			return fmt.Errorf("btree: more than %d nodes reachable (cycle?)", maxNodes)
		}
		k, c := len(n.Entries), len(n.Children)
		if c > m {
			return fmt.Errorf("btree: node with %d children exceeds order %d", c, m)
		}
		if k > m-1 {
			return fmt.Errorf("btree: node with %d keys exceeds m-1=%d", k, m-1)
		}
		if n != t.Root && k < minKeys {
			return fmt.Errorf("btree: non-root node with %d keys, minimum is %d (m=%d)", k, minKeys, m)
		}
		if n == t.Root && k < 1 {
			return fmt.Errorf("btree: root without keys in a non-empty tree")
		}
		if c != 0 && c != k+1 {
			return fmt.Errorf("btree: node with %d children has %d keys", c, k)
		}
		if c == 0 {
			if leafDepth == -1 {
				leafDepth = depth
			} else if leafDepth != depth {
				return fmt.Errorf("btree: leaves at depths %d and %d", leafDepth, depth)
			}
		}
		for i := 0; i <= k; i++ {
			if i < c {
				ch := n.Children[i]
				if ch == nil {
					return fmt.Errorf("btree: nil child")
				}
				if ch.Parent != n {
					return fmt.Errorf("btree: child does not point back to its parent")
				}
				if err := walk(ch, depth+1); err != nil {
					return err
				}
			}
			if i < k {
				e := n.Entries[i]
				if e == nil {
					return fmt.Errorf("btree: nil entry")
				}
				if order && prev != nil && t.Comparator(prev.Key, e.Key) >= 0 {
					return fmt.Errorf("btree: in-order keys not strictly ascending: %v then %v", prev.Key, e.Key)
				}
				prev = e
				entries++
			}
		}
		return nil
	}
	if err := walk(t.Root, 1); err != nil {
		return st, err
	}
	st.Nodes, st.Height, st.BNodes = entries, leafDepth, nodes
	if entries != t.Size() {
		return st, fmt.Errorf("btree: %d entries reachable but Size()=%d", entries, t.Size())
	}
	if h := t.Height(); h != leafDepth {
		return st, fmt.Errorf("btree: Height()=%d but the tree has %d levels", h, leafDepth)
	}
	return st, nil
}

// Work bounds of C07 (comparator calls of one Get/Put/Remove on n keys).
func BoundRBT(n int) float64 { return 2*math.Log2(float64(n)+1) + 2 }
func BoundAVL(n int) float64 { return 1.45*math.Log2(float64(n)+2) + 2 }
func BoundBTree(n, m int) float64 {
	half := float64((m + 1) / 2)
	return 4 * (math.Log2(float64(m)) + 1) * (math.Log(float64(n)+1)/math.Log(half) + 1)
}
