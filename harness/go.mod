module verif/harness

go 1.23

toolchain go1.23.5

require (
	github.com/emirpasic/gods/v2 v2.0.0
	pgregory.net/rapid v1.3.0
)

replace github.com/emirpasic/gods/v2 => /repo
