package c18

// (c) concurrent readers on containers of STRING elements (all 21 kinds, via
// the generic handle): code paths that exist only for string keys or values —
// interning tables, memoised key encodings, shared scratch buffers — are not
// reached by the int-element reflective driver.  Two containers of the same
// kind are read at once, so package-level state shared between instances is
// exercised too.

import (
	"fmt"
	"reflect"
	"sync"
	"testing"

	"pgregory.net/rapid"

	"verif/harness/internal/all"
	"verif/harness/internal/fp"
	"verif/harness/internal/pbt"
	"verif/harness/internal/script"
)

type SCase struct {
	Cfg     all.Cfg     `json:"cfg"`
	OpsA    []script.Op `json:"opsA"`
	OpsB    []script.Op `json:"opsB"`
	Readers [][]int     `json:"readers"` // per goroutine: read operation codes (odd codes read container B)
}

var readNames = []string{"ToJSON", "String", "Values", "Keys", "Size", "Get", "Iterate", "Peek", "MarshalJSON", "Empty"}

func readOp(h *all.H[string], code int) any {
	d := script.StringDomain
	switch readNames[(code/2)%len(readNames)] {
	case "ToJSON":
		b, err := h.ToJSON()
		return fmt.Sprint(normJSON(h, b), err)
	case "MarshalJSON":
		b, err := h.ToJSON()
		return fmt.Sprint(normJSON(h, b), err)
	case "String":
		if all.Unordered(h.Cfg.Kind) {
			return len(h.String())
		}
		return h.String()
	case "Values":
		return h.Observe().Values
	case "Keys":
		if h.Keys == nil {
			return nil
		}
		return h.Observe().Keys
	case "Size":
		return h.Size()
	case "Empty":
		return h.Empty()
	case "Get":
		if h.Get == nil {
			return nil
		}
		v, ok := h.Get(d.At(code / 20))
		return fmt.Sprint(v, ok)
	case "Iterate":
		if h.Iterate == nil || all.Family(h.Cfg.Kind) == "heap" {
			return nil
		}
		ks, vs := h.Iterate()
		return fmt.Sprint(ks, vs)
	case "Peek":
		if h.Peek == nil {
			return nil
		}
		v, ok := h.Peek()
		return fmt.Sprint(v, ok)
	}
	return nil
}

func normJSON(h *all.H[string], b []byte) string {
	if all.Unordered(h.Cfg.Kind) || all.Family(h.Cfg.Kind) == "heap" {
		return fmt.Sprint(len(b)) // element order is hash/layout dependent: compare the length only
	}
	return string(b)
}

func checkStrings(c SCase) (pbt.Info, error) {
	var info pbt.Info
	d := script.StringDomain
	a, b := all.New[string](c.Cfg), all.New[string](c.Cfg)
	for _, op := range c.OpsA {
		script.Apply(a, d, op)
	}
	for _, op := range c.OpsB {
		script.Apply(b, d, op)
	}
	fa, fb := fp.Of(a.Obj), fp.Of(b.Obj)
	pick := func(code int) *all.H[string] {
		if code%2 == 1 {
			return b
		}
		return a
	}
	racesBefore := raceErrors()
	got := make([][]any, len(c.Readers))
	var wg sync.WaitGroup
	var mu sync.Mutex
	var firstErr error
	start := make(chan struct{})
	for g, codes := range c.Readers {
		wg.Add(1)
		go func(g int, codes []int) {
			defer wg.Done()
			defer func() {
				if p := recover(); p != nil {
					mu.Lock()
					if firstErr == nil {
						firstErr = fmt.Errorf("%s[string]: reader goroutine %d panicked: %v", c.Cfg.Kind, g, p)
					}
					mu.Unlock()
				}
			}()
			<-start
			for _, code := range codes {
				got[g] = append(got[g], readOp(pick(code), code))
			}
		}(g, codes)
	}
	close(start)
	wg.Wait()
	if firstErr != nil {
		return info, firstErr
	}
	for g, codes := range c.Readers {
		for i, code := range codes {
			if want := readOp(pick(code), code); i < len(got[g]) && !reflect.DeepEqual(got[g][i], want) {
				return info, fmt.Errorf("%s[string]: concurrent %s (goroutine %d, call %d) returned %v, sequentially it returns %v", c.Cfg.Kind, readNames[(code/2)%len(readNames)], g, i, got[g][i], want)
			}
		}
	}
	if dlt := raceErrors() - racesBefore; dlt > 0 {
		return info, fmt.Errorf("%s[string] (sizes %d and %d): the race detector reported %d data race(s) while %d goroutines issued only read-only calls on two containers (report in the shard log)", c.Cfg.Kind, a.Size(), b.Size(), dlt, len(c.Readers))
	}
	if fp.Of(a.Obj) != fa || fp.Of(b.Obj) != fb {
		return info, fmt.Errorf("%s[string]: a container changed during concurrent read-only calls", c.Cfg.Kind)
	}
	info.NonTrivial = a.Size() > 0 && b.Size() > 0 && len(c.Readers) >= 2
	return info, nil
}

func genStrings(kind string) func(t *rapid.T) SCase {
	return func(t *rapid.T) SCase {
		n := len(script.StringDomain.Elems)
		c := SCase{Cfg: script.GenCfg(t, kind)}
		c.OpsA = script.GenOps(t, kind, n, 14)
		c.OpsB = script.GenOps(t, kind, n, 14)
		g := rapid.IntRange(2, 6).Draw(t, "goroutines")
		for i := 0; i < g; i++ {
			c.Readers = append(c.Readers, rapid.SliceOfN(rapid.IntRange(0, 399), 1, 8).Draw(t, "reads"))
		}
		return c
	}
}

func TestAAStringElementsConcurrent(t *testing.T) {
	if !raceEnabled {
		t.Skip("not built with -race")
	}
	for _, kind := range all.Kinds {
		pbt.Run(t, pbt.Target[SCase]{Name: "concurrent-strings/" + kind, Checks: 60, Gen: genStrings(kind), Check: checkStrings})
	}
}
