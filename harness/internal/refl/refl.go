// Package refl is the reflective universal driver: it enumerates every exported
// method of a container (and of the iterator its Iterator() returns) and
// synthesises arguments by parameter type, so that the "all 21 containers /
// every exported operation" properties (C15, C17, C18) cover the API surface by
// construction.  Elements, keys and values have the named type E, indices are
// plain int, which is how the two are told apart.
package refl

import (
	"cmp"
	"encoding/json"
	"fmt"
	"math"
	"reflect"
	"sort"
	"strings"

	"github.com/emirpasic/gods/v2/lists/arraylist"
	"github.com/emirpasic/gods/v2/lists/doublylinkedlist"
	"github.com/emirpasic/gods/v2/lists/singlylinkedlist"
	"github.com/emirpasic/gods/v2/maps/hashbidimap"
	"github.com/emirpasic/gods/v2/maps/hashmap"
	"github.com/emirpasic/gods/v2/maps/linkedhashmap"
	"github.com/emirpasic/gods/v2/maps/treebidimap"
	"github.com/emirpasic/gods/v2/maps/treemap"
	"github.com/emirpasic/gods/v2/queues/arrayqueue"
	"github.com/emirpasic/gods/v2/queues/circularbuffer"
	"github.com/emirpasic/gods/v2/queues/linkedlistqueue"
	"github.com/emirpasic/gods/v2/queues/priorityqueue"
	"github.com/emirpasic/gods/v2/sets/hashset"
	"github.com/emirpasic/gods/v2/sets/linkedhashset"
	"github.com/emirpasic/gods/v2/sets/treeset"
	"github.com/emirpasic/gods/v2/stacks/arraystack"
	"github.com/emirpasic/gods/v2/stacks/linkedliststack"
	"github.com/emirpasic/gods/v2/trees/avltree"
	"github.com/emirpasic/gods/v2/trees/binaryheap"
	"github.com/emirpasic/gods/v2/trees/btree"
	"github.com/emirpasic/gods/v2/trees/redblacktree"

	"verif/harness/internal/dom"
)

// E is the element / key / value type of every container built here.
type E int

var eType = reflect.TypeOf(E(0))

// F is the element type of the "float" configuration: float64 elements with the
// unusual values (NaN, the zeros, the infinities), and the DEFAULT constructors
// (New, cmp.Compare) for the comparator-based kinds.
type F float64

var fType = reflect.TypeOf(F(0))

var floatElems = []F{F(math.NaN()), F(math.Inf(-1)), -2.5, -1, F(math.Copysign(0, -1)), 0, 0.5, 1, 2, 3, 7, 1e300, F(math.Inf(1))}

func felem(x int) F { return floatElems[mod(x, len(floatElems))] }

// Kinds are the 21 containers.
var Kinds = []string{
	"arraylist", "singlylinkedlist", "doublylinkedlist",
	"hashset", "treeset", "linkedhashset",
	"arraystack", "linkedliststack",
	"arrayqueue", "linkedlistqueue", "circularbuffer", "priorityqueue",
	"hashmap", "treemap", "linkedhashmap", "hashbidimap", "treebidimap",
	"redblacktree", "avltree", "btree", "binaryheap",
}

// Name is the prefix String() must start with (the names asserted by the repository's own tests).
var Name = map[string]string{
	"arraylist": "ArrayList", "singlylinkedlist": "SinglyLinkedList", "doublylinkedlist": "DoublyLinkedList",
	"hashset": "HashSet", "treeset": "TreeSet", "linkedhashset": "LinkedHashSet",
	"arraystack": "ArrayStack", "linkedliststack": "LinkedListStack",
	"arrayqueue": "ArrayQueue", "linkedlistqueue": "LinkedListQueue", "circularbuffer": "CircularBuffer", "priorityqueue": "PriorityQueue",
	"hashmap": "HashMap", "treemap": "TreeMap", "linkedhashmap": "LinkedHashMap", "hashbidimap": "HashBidiMap", "treebidimap": "TreeBidiMap",
	"redblacktree": "RedBlackTree", "avltree": "AVLTree", "btree": "BTree", "binaryheap": "BinaryHeap",
}

// treeShaped kinds print their node structure in String(); the structure after
// FromJSON depends on Go's map iteration order, so only the name line and the
// multiset of printed keys are compared.
func treeShaped(kind string) bool {
	return kind == "redblacktree" || kind == "avltree" || kind == "btree"
}

// Unordered kinds enumerate in Go map order.
func Unordered(kind string) bool {
	return kind == "hashset" || kind == "hashmap" || kind == "hashbidimap"
}

// Cfg is a container configuration.
type Cfg struct {
	Elem  string `json:"elem,omitempty"` // "" = int elements (type E), "float" = float64 elements (type F) and default constructors
	Kind  string `json:"kind"`
	Cmp   string `json:"cmp,omitempty"`   // nat | rev | mag | revmag (comparator kinds)
	Cap   int    `json:"cap,omitempty"`   // ring capacity (>= 1)
	Order int    `json:"order,omitempty"` // B-tree order (>= 3)
}

// comparators on E: shared function values, so that two containers of one
// configuration use the same function (TreeSet algebra compares code pointers)
var (
	natE = func(a, b E) int { return cmp.Compare(a, b) }
	revE = func(a, b E) int { return cmp.Compare(b, a) }
)

// magE / revMagE: the natural and the reversed order, returned as magnitudes
// (2..301, including values >= 128 and 256) instead of -1/0/+1; overflow-free for
// every pair of elements.
var (
	magE    = func(a, b E) int { return cmp.Compare(a, b) * (2 + int(uint64(a^b)%300)) }
	revMagE = func(a, b E) int { return cmp.Compare(b, a) * (2 + int(uint64(a^b)%300)) }
)

func cmpE(id string) func(a, b E) int {
	switch id {
	case dom.Rev:
		return revE
	case dom.Mag:
		return magE
	case "revmag":
		return revMagE
	case dom.Big32:
		return big32E
	case dom.Ext:
		return extE
	}
	return natE
}

// results far outside the 32-bit range (see dom.Big32, dom.Ext)
var (
	big32E = func(a, b E) int { return dom.Cmp(dom.Big32)(int(a), int(b)) }
	extE   = func(a, b E) int { return dom.Cmp(dom.Ext)(int(a), int(b)) }
)

// newFloat builds a container of float64 elements with the default constructors.
func newFloat(c Cfg) any {
	switch c.Kind {
	case "arraylist":
		return arraylist.New[F]()
	case "singlylinkedlist":
		return singlylinkedlist.New[F]()
	case "doublylinkedlist":
		return doublylinkedlist.New[F]()
	case "hashset":
		return hashset.New[F]()
	case "treeset":
		return treeset.New[F]()
	case "linkedhashset":
		return linkedhashset.New[F]()
	case "arraystack":
		return arraystack.New[F]()
	case "linkedliststack":
		return linkedliststack.New[F]()
	case "arrayqueue":
		return arrayqueue.New[F]()
	case "linkedlistqueue":
		return linkedlistqueue.New[F]()
	case "circularbuffer":
		return circularbuffer.New[F](c.Cap)
	case "priorityqueue":
		return priorityqueue.New[F]()
	case "hashmap":
		return hashmap.New[F, F]()
	case "treemap":
		return treemap.New[F, F]()
	case "linkedhashmap":
		return linkedhashmap.New[F, F]()
	case "hashbidimap":
		return hashbidimap.New[F, F]()
	case "treebidimap":
		return treebidimap.New[F, F]()
	case "redblacktree":
		return redblacktree.New[F, F]()
	case "avltree":
		return avltree.New[F, F]()
	case "btree":
		return btree.New[F, F](c.Order)
	case "binaryheap":
		return binaryheap.New[F]()
	}
	panic("refl: unknown kind " + c.Kind)
}

// New builds a fresh container (a pointer, as an any).
func New(c Cfg) any {
	switch c.Elem {
	case "float":
		return newFloat(c)
	case "any":
		return newOf[any](c, cmpA(c.Cmp))
	case "uint8":
		return newOf[U](c, cmpU(c.Cmp))
	case "wide":
		return newOf[W](c, cmpW(c.Cmp))
	}
	f := cmpE(c.Cmp)
	switch c.Kind {
	case "arraylist":
		return arraylist.New[E]()
	case "singlylinkedlist":
		return singlylinkedlist.New[E]()
	case "doublylinkedlist":
		return doublylinkedlist.New[E]()
	case "hashset":
		return hashset.New[E]()
	case "treeset":
		return treeset.NewWith[E](f)
	case "linkedhashset":
		return linkedhashset.New[E]()
	case "arraystack":
		return arraystack.New[E]()
	case "linkedliststack":
		return linkedliststack.New[E]()
	case "arrayqueue":
		return arrayqueue.New[E]()
	case "linkedlistqueue":
		return linkedlistqueue.New[E]()
	case "circularbuffer":
		return circularbuffer.New[E](c.Cap)
	case "priorityqueue":
		return priorityqueue.NewWith[E](f)
	case "hashmap":
		return hashmap.New[E, E]()
	case "treemap":
		return treemap.NewWith[E, E](f)
	case "linkedhashmap":
		return linkedhashmap.New[E, E]()
	case "hashbidimap":
		return hashbidimap.New[E, E]()
	case "treebidimap":
		return treebidimap.NewWith[E, E](f, f)
	case "redblacktree":
		return redblacktree.NewWith[E, E](f)
	case "avltree":
		return avltree.NewWith[E, E](f)
	case "btree":
		return btree.NewWith[E, E](c.Order, f)
	case "binaryheap":
		return binaryheap.NewWith[E](f)
	}
	panic("refl: unknown kind " + c.Kind)
}

// ReadOnly lists the operations property C18 names as read-only (plus the
// equally read-only accessors of the same families).
var ReadOnly = map[string]bool{
	"Get": true, "GetKey": true, "GetNode": true, "Contains": true, "IndexOf": true, "Peek": true,
	"Size": true, "Empty": true, "Full": true, "Values": true, "Keys": true, "String": true,
	"ToJSON": true, "MarshalJSON": true,
	"Floor": true, "Ceiling": true, "Min": true, "Max": true, "Left": true, "Right": true,
	"LeftKey": true, "RightKey": true, "LeftValue": true, "RightValue": true, "Height": true,
	"Iterator": true, "IteratorAt": true,
	"Each": true, "Any": true, "All": true, "Find": true, "Select": true, "Map": true,
	"Intersection": true, "Union": true, "Difference": true,
}

// Step is one call: method name, raw integers consumed by the argument
// synthesiser, bytes for []byte parameters, and the calls made on a returned iterator.
type Step struct {
	M  string   `json:"m"`
	R  []int    `json:"r,omitempty"`
	B  []byte   `json:"b,omitempty"`
	It []string `json:"it,omitempty"`
	N  int      `json:"n,omitempty"` // > 1: the call is made N times in a row with successive arguments (bulk building)
	V  int      `json:"v,omitempty"` // > 0: a variadic parameter receives exactly V values instead of 0..6
}

// Methods returns the exported method names of a container of this configuration.
func Methods(c Cfg) []string {
	t := reflect.TypeOf(New(c))
	var out []string
	for i := 0; i < t.NumMethod(); i++ {
		out = append(out, t.Method(i).Name)
	}
	sort.Strings(out)
	return out
}

// IteratorMethods returns the exported methods of the iterator type of this
// configuration (nil when the kind has no iterator).
func IteratorMethods(c Cfg) []string {
	t := reflect.TypeOf(New(c))
	m, ok := t.MethodByName("Iterator")
	if !ok {
		return nil
	}
	rt := m.Type.Out(0)
	if rt.Kind() != reflect.Pointer {
		rt = reflect.PointerTo(rt)
	}
	var out []string
	for i := 0; i < rt.NumMethod(); i++ {
		out = append(out, rt.Method(i).Name)
	}
	sort.Strings(out)
	return out
}

type raw struct {
	r []int
	i int
}

func (r *raw) next() int {
	if len(r.r) == 0 {
		return 0
	}
	v := r.r[r.i%len(r.r)]
	r.i++
	return v
}

func mod(a, m int) int { return ((a % m) + m) % m }

// elem maps a raw integer to an element: mostly a small domain (so that keys
// collide and removals hit), sometimes large or negative.
func elem(x int) E {
	switch mod(x, 17) {
	case 0:
		return E(-1)
	case 1:
		return E(1 << 40)
	case 2:
		return E([]int{math.MinInt, math.MaxInt, -7, 64, 100, 255}[mod(x/17, 6)])
	default:
		if mod(x/17, 5) == 0 {
			return E(mod(x/85, 300)) // a wide domain: large containers with few collisions
		}
		return E(mod(x/17, 12))
	}
}

// Result is the normalised outcome of a call.
type Result struct {
	Called bool   // false: the call was skipped (arguments could not be synthesised soundly)
	Why    string // reason for skipping
	Vals   []any  // normalised return values (comparable with reflect.DeepEqual)
	ItLog  []string
	Flags  []string // what made the call interesting: on-empty, empty-variadic, index-out-of-range, extreme-index, bad-json
}

// Runner drives one container.
type Runner struct {
	Cfg   Cfg
	Obj   any
	v     reflect.Value
	elemT reflect.Type
}

func NewRunner(c Cfg) *Runner {
	o := New(c)
	r := &Runner{Cfg: c, Obj: o, v: reflect.ValueOf(o), elemT: eType}
	switch c.Elem {
	case "float":
		r.elemT = fType
	case "any":
		r.elemT = aType
	case "uint8":
		r.elemT = uType
	case "wide":
		r.elemT = wType
	}
	return r
}

// elemValue synthesises an element of the runner's element type.
func (r *Runner) elemValue(x int) reflect.Value {
	switch {
	case r.elemT == fType:
		return reflect.ValueOf(felem(x))
	case r.elemT == aType:
		if a := aelem(x); a != nil {
			return reflect.ValueOf(a)
		}
		return reflect.Zero(aType) // the nil interface value
	case r.elemT == uType:
		return reflect.ValueOf(uelem(x))
	case r.elemT == wType:
		return reflect.ValueOf(welem(x))
	case r.Cfg.Elem == "int13":
		return reflect.ValueOf(E(mod(x, isoN)))
	}
	return reflect.ValueOf(elem(x))
}

// toInt reads an integer out of an int- or float-kinded value (callbacks get both).
func toInt(v reflect.Value) int {
	switch v.Kind() {
	case reflect.Interface:
		if v.IsNil() {
			return 0
		}
		return rankA(v.Interface())
	case reflect.Uint8:
		return int(v.Uint())
	case reflect.Struct:
		if v.Type() == wType {
			return int(v.Field(0).Int())
		}
		return 0
	case reflect.Invalid:
		return 0
	case reflect.Float64, reflect.Float32:
		f := v.Float()
		if f != f || f > 1e9 || f < -1e9 {
			return 0
		}
		return int(f)
	}
	return int(v.Int())
}

// Size calls Size() on the container.
func (r *Runner) Size() int {
	return int(r.v.MethodByName("Size").Call(nil)[0].Int())
}

func (r *Runner) call0(name string) []reflect.Value {
	m := r.v.MethodByName(name)
	if !m.IsValid() {
		return nil
	}
	return m.Call(nil)
}

// Observers returns the normalised results of the argument-free observers.
func (r *Runner) Observers() map[string]any {
	out := map[string]any{}
	for _, name := range []string{"Size", "Empty", "Full", "Values", "Keys", "String", "ToJSON", "Peek", "Height", "Min", "Max", "LeftKey", "RightKey", "LeftValue", "RightValue"} {
		if res := r.call0(name); res != nil {
			out[name] = r.normalise(name, res)
		}
	}
	return out
}

func (r *Runner) normalise(method string, res []reflect.Value) []any {
	var out []any
	for _, v := range res {
		out = append(out, r.norm1(method, v))
	}
	return out
}

func (r *Runner) norm1(method string, v reflect.Value) any {
	unordered := Unordered(r.Cfg.Kind)
	switch v.Kind() {
	case reflect.Bool:
		return v.Bool()
	case reflect.Int, reflect.Int64:
		return v.Int()
	case reflect.Float64:
		return fmt.Sprint(v.Float())
	case reflect.String:
		s := v.String()
		if method == "String" && (unordered || treeShaped(r.Cfg.Kind)) {
			// the listing is in map order: keep the name line and the multiset of the rest
			head, rest, _ := strings.Cut(s, "\n")
			toks := strings.FieldsFunc(rest, func(c rune) bool {
				return c == ' ' || c == ',' || c == '[' || c == ']' || c == '\n' || c == '│' || c == '└' || c == '┌' || c == '─'
			})
			sort.Strings(toks)
			return head + "\n" + strings.Join(toks, " ")
		}
		return s
	case reflect.Uint8:
		return int64(v.Uint())
	case reflect.Slice:
		if v.Type().Elem() == uType {
			xs := make([]int, v.Len())
			for i := range xs {
				xs[i] = int(v.Index(i).Uint())
			}
			if unordered {
				sort.Ints(xs)
			}
			return fmt.Sprint(xs)
		}
		if v.Type().Elem() == wType {
			xs := make([]int, v.Len())
			for i := range xs {
				xs[i] = int(v.Index(i).Field(0).Int())
			}
			if unordered || (r.Cfg.Kind == "binaryheap" || r.Cfg.Kind == "priorityqueue") && method == "ToJSON" {
				sort.Ints(xs)
			}
			return fmt.Sprint(xs)
		}
		if v.Type().Elem() == aType {
			// elements of the domain by their rank (the int image of the value, cf. IsoCheck), others by their printed form
			xs := make([]string, v.Len())
			ranks := make([]int, 0, v.Len())
			for i := range xs {
				n := r.norm1(method, v.Index(i))
				if k, ok := n.(int64); ok {
					ranks = append(ranks, int(k))
				}
				xs[i] = fmt.Sprint(n)
			}
			sorted := unordered || (r.Cfg.Kind == "binaryheap" || r.Cfg.Kind == "priorityqueue") && method == "ToJSON"
			if len(ranks) == len(xs) { // domain elements only: exactly the text of the int image
				if sorted {
					sort.Ints(ranks)
				}
				return fmt.Sprint(ranks)
			}
			if sorted {
				sort.Strings(xs)
			}
			return "[" + strings.Join(xs, " ") + "]"
		}
		if v.Type().Elem().Kind() == reflect.Uint8 { // []byte: JSON
			b := v.Bytes()
			if unordered {
				var x any
				if json.Unmarshal(b, &x) == nil {
					if arr, ok := x.([]any); ok {
						var ss []string
						for _, e := range arr {
							eb, _ := json.Marshal(e)
							ss = append(ss, string(eb))
						}
						sort.Strings(ss)
						return "[" + strings.Join(ss, ",") + "]"
					}
					nb, _ := json.Marshal(x)
					return string(nb)
				}
			}
			return string(b)
		}
		if v.Type().Elem() == eType {
			xs := make([]int, v.Len())
			for i := range xs {
				xs[i] = int(v.Index(i).Int())
			}
			if unordered || (r.Cfg.Kind == "binaryheap" || r.Cfg.Kind == "priorityqueue") && method == "ToJSON" {
				sort.Ints(xs)
			}
			return fmt.Sprint(xs)
		}
		if v.Type().Elem() == fType {
			xs := make([]float64, v.Len())
			for i := range xs {
				xs[i] = v.Index(i).Float()
			}
			if unordered {
				// cmp.Compare ties -0 with +0: break the tie by the sign bit (total order)
				sort.Slice(xs, func(i, j int) bool {
					if c := cmp.Compare(xs[i], xs[j]); c != 0 {
						return c < 0
					}
					return math.Signbit(xs[i]) && !math.Signbit(xs[j])
				})
			}
			return fmt.Sprint(xs)
		}
		return "slice:" + v.Type().String()
	case reflect.Interface:
		if r.elemT == aType && v.Type() == aType {
			// an element: its rank in the domain (so that the "any" and the "int13"
			// instantiations normalise alike), foreign values by their printed form
			if v.IsNil() {
				return int64(0)
			}
			if k := rankA(v.Interface()); k < len(anyElems) {
				return int64(k)
			}
			return "foreign:" + textA(v.Interface())
		}
		if err, ok := v.Interface().(error); ok {
			return "error:" + errClass(err)
		}
		return r.norm1(method, v.Elem())
	case reflect.Pointer:
		if v.IsNil() {
			return "nil:" + v.Type().String()
		}
		return "ptr:" + v.Type().String()
	case reflect.Struct:
		if v.Type() == wType {
			return v.Field(0).Int() // the int image of the wide element
		}
		return "struct:" + v.Type().String()
	}
	return "kind:" + v.Kind().String()
}

// errClass keeps the part of an error message that does not depend on offsets.
func errClass(err error) string {
	s := err.Error()
	if i := strings.Index(s, " at offset"); i >= 0 {
		s = s[:i]
	}
	// which of several unsupported values (NaN, +Inf, -Inf) an unordered container
	// meets first depends on Go's map iteration order
	if i := strings.Index(s, "unsupported value: "); i >= 0 {
		s = s[:i] + "unsupported value"
	}
	return s
}

// Do performs one step (Step.N > 1: the call is repeated with shifted raw
// material; the result of the last call is returned).
func (r *Runner) Do(s Step) (res Result) {
	if s.N > 1 {
		one := s
		one.N = 0
		for i := 0; i < s.N; i++ {
			one.R = make([]int, len(s.R))
			for j, x := range s.R {
				one.R[j] = x + i*(17*85+17*j+1) // walks through the wide element domain
			}
			res = r.doOnce(one)
			if !res.Called {
				return res
			}
		}
		return res
	}
	return r.doOnce(s)
}

func (r *Runner) doOnce(s Step) (res Result) {
	m := r.v.MethodByName(s.M)
	if !m.IsValid() {
		return Result{Why: "no such method"}
	}
	if r.Cfg.Elem == "any" && s.B != nil && nestedJSON(s.B) {
		return Result{Why: "a nested array/object would become an uncomparable element"}
	}
	mt := m.Type()
	rw := &raw{r: s.R}
	size := r.Size()
	args := make([]reflect.Value, 0, mt.NumIn())
	if size == 0 {
		res.Flags = append(res.Flags, "on-empty")
	}
	if len(s.B) > 0 && !json.Valid(s.B) || s.B != nil && len(s.B) == 0 {
		res.Flags = append(res.Flags, "bad-json")
	}
	for i := 0; i < mt.NumIn(); i++ {
		pt := mt.In(i)
		if mt.IsVariadic() && i == mt.NumIn()-1 {
			// 0..6 values, duplicates allowed
			n := mod(rw.next(), 7)
			if s.V > 0 {
				n = s.V
			}
			if n == 0 {
				res.Flags = append(res.Flags, "empty-variadic")
			}
			for j := 0; j < n; j++ {
				a, ok := r.synth(pt.Elem(), rw, size, s)
				if !ok {
					return Result{Why: "cannot synthesise variadic " + pt.Elem().String()}
				}
				args = append(args, a)
			}
			continue
		}
		a, ok := r.synth(pt, rw, size, s)
		if !ok {
			return Result{Why: "cannot synthesise " + pt.String()}
		}
		if pt.Kind() == reflect.Int && pt != eType {
			if x := a.Int(); x < 0 || x >= int64(size) {
				res.Flags = append(res.Flags, "index-out-of-range")
				if x > 1<<40 || x < -(1<<40) {
					res.Flags = append(res.Flags, "extreme-index")
				}
			}
		}
		args = append(args, a)
	}
	outs := m.Call(args)
	res.Called = true
	res.Vals = r.normalise(s.M, outs)
	// a returned iterator is driven right away (fresh after the last mutation)
	for _, o := range outs {
		if it, ok := asIterator(o); ok {
			res.ItLog = r.driveIterator(it, s.It, rw)
		}
	}
	return res
}

func asIterator(v reflect.Value) (reflect.Value, bool) {
	t := v.Type()
	if t.Kind() == reflect.Struct {
		pt := reflect.PointerTo(t)
		if _, ok := pt.MethodByName("Next"); ok {
			p := reflect.New(t)
			p.Elem().Set(v)
			return p, true
		}
		return v, false
	}
	if t.Kind() == reflect.Pointer && !v.IsNil() {
		if _, ok := t.MethodByName("Next"); ok {
			if _, ok2 := t.MethodByName("Begin"); ok2 {
				return v, true
			}
		}
	}
	return v, false
}

// driveIterator follows the documented protocol: move methods return a bool;
// Value/Key/Index/Node are read only after a successful move.
func (r *Runner) driveIterator(it reflect.Value, calls []string, rw *raw) []string {
	var log []string
	valid := false
	for _, name := range calls {
		m := it.MethodByName(name)
		if !m.IsValid() {
			continue
		}
		switch name {
		case "Next", "Prev", "First", "Last":
			valid = m.Call(nil)[0].Bool()
			log = append(log, fmt.Sprintf("%s=%v", name, valid))
		case "Begin", "End":
			m.Call(nil)
			valid = false
			log = append(log, name)
		case "NextTo", "PrevTo":
			f := r.makeFunc(m.Type().In(0), rw)
			valid = m.Call([]reflect.Value{f})[0].Bool()
			log = append(log, fmt.Sprintf("%s=%v", name, valid))
		case "Value", "Key", "Index":
			if valid {
				log = append(log, fmt.Sprintf("%s=%v", name, r.norm1(name, m.Call(nil)[0])))
			}
		case "Node":
			if valid {
				m.Call(nil)
				log = append(log, "Node")
			}
		}
	}
	return log
}

// synth builds one argument of type pt.
func (r *Runner) synth(pt reflect.Type, rw *raw, size int, s Step) (reflect.Value, bool) {
	switch {
	case pt == r.elemT:
		return r.elemValue(rw.next()), true
	case pt.Kind() == reflect.Int:
		return reflect.ValueOf(dom.WildIndex(rw.next(), size)), true
	case pt.Kind() == reflect.Slice && pt.Elem().Kind() == reflect.Uint8:
		b := s.B
		if b == nil {
			b = []byte{}
		}
		return reflect.ValueOf(b), true
	case pt.Kind() == reflect.Func:
		return r.makeFunc(pt, rw), true
	case pt == r.v.Type():
		// a peer of the same kind and configuration, or the receiver itself
		k := rw.next()
		if mod(k, 5) == 0 {
			return r.v, true
		}
		pc := r.Cfg
		if mod(k, 7) == 3 && pc.Cmp != "" {
			// a peer ordered by ANOTHER comparator: documented use of the TreeSet algebra
			// (the result is then the empty set)
			if pc.Cmp == dom.Rev {
				pc.Cmp = dom.Nat
			} else {
				pc.Cmp = dom.Rev
			}
		}
		peer := reflect.ValueOf(New(pc))
		if add := peer.MethodByName("Add"); add.IsValid() {
			n := mod(k, 6)
			vals := make([]reflect.Value, n)
			for i := range vals {
				vals[i] = r.elemValue(rw.next())
			}
			add.Call(vals)
		}
		return peer, true
	case pt.Kind() == reflect.Pointer && strings.Contains(pt.String(), "Node["):
		// only nodes obtained from this very tree
		for _, getter := range []string{"GetNode", "Left", "Right"} {
			g := r.v.MethodByName(getter)
			if !g.IsValid() || g.Type().NumOut() != 1 || g.Type().Out(0) != pt {
				continue
			}
			var out []reflect.Value
			if g.Type().NumIn() == 1 {
				out = g.Call([]reflect.Value{r.elemValue(rw.next())})
			} else {
				out = g.Call(nil)
			}
			if !out[0].IsNil() {
				return out[0], true
			}
		}
		return reflect.Value{}, false
	}
	return reflect.Value{}, false
}

// makeFunc builds a pure callback of the given func type from the family:
// predicates (bool result), mappers (E results), comparators (int result),
// visitors (no result).
func (r *Runner) makeFunc(ft reflect.Type, rw *raw) reflect.Value {
	a, b := rw.next(), rw.next()
	return reflect.MakeFunc(ft, func(in []reflect.Value) []reflect.Value {
		xs := make([]int, len(in))
		for i, v := range in {
			xs[i] = toInt(v)
		}
		x, y := 0, 0
		if len(xs) > 0 {
			x = xs[0]
		}
		if len(xs) > 1 {
			y = xs[1]
		}
		out := make([]reflect.Value, ft.NumOut())
		for i := 0; i < ft.NumOut(); i++ {
			ot := ft.Out(i)
			switch {
			case ot.Kind() == reflect.Bool:
				var res bool
				switch mod(a, 5) {
				case 0:
					res = true
				case 1:
					res = false
				case 2:
					res = mod(y, 2+mod(b, 3)) == 0
				case 3:
					res = x >= mod(b, 6)
				default:
					res = mod(x+y, 3) == mod(b, 3)
				}
				out[i] = reflect.ValueOf(res)
			case ot == wType:
				v := mod(a, 4)*y + mod(b, 3)*x + i
				if mod(a, 3) == 0 {
					v = mod(v, 4) // many-to-one
				}
				out[i] = reflect.ValueOf(welem(v))
			case ot == aType || ot == uType || ot == eType && r.Cfg.Elem == "int13":
				v := mod(a, 4)*y + mod(b, 3)*x + i
				if mod(a, 3) == 0 {
					v = mod(v, 4) // many-to-one
				}
				switch {
				case ot == uType:
					out[i] = reflect.ValueOf(U(mod(v, 256)))
				case ot == eType:
					out[i] = reflect.ValueOf(E(mod(v, isoN)))
				default:
					out[i] = reflect.Zero(aType)
					if e := anyElems[mod(v, isoN)]; e != nil {
						out[i] = reflect.ValueOf(&e).Elem()
					}
				}
			case ot == eType || ot == fType:
				v := mod(a, 4)*y + mod(b, 3)*x + i
				if mod(a, 3) == 0 {
					v = mod(v, 4) // many-to-one
				}
				if ot == fType {
					if mod(a, 7) == 0 {
						out[i] = reflect.ValueOf(felem(v)) // may be NaN or an infinity
					} else {
						out[i] = reflect.ValueOf(F(v))
					}
				} else {
					out[i] = reflect.ValueOf(E(v))
				}
			case ot.Kind() == reflect.Int: // comparator
				c := cmp.Compare(x, y)
				switch mod(a, 3) {
				case 1:
					c = -c
				case 2:
					c = cmp.Compare(x>>1, y>>1)
				}
				out[i] = reflect.ValueOf(c)
			default:
				out[i] = reflect.Zero(ot)
			}
		}
		return out
	})
}

// WarmUp calls read-only methods of an arbitrary container (any element type of
// integer kind) chosen by the raw integers: observers, lookups and searches whose
// parameters are integers or integer variadics.  It is used by checks that want
// caches, memoised results and lazily built structures to be "warm" before they
// look for aliasing (C16).  Methods with other parameter kinds are not called.
func WarmUp(obj any, raws []int) []string {
	v := reflect.ValueOf(obj)
	t := v.Type()
	var names []string
	for i := 0; i < t.NumMethod(); i++ {
		m := t.Method(i)
		if !ReadOnly[m.Name] {
			continue
		}
		ok := true
		for j := 1; j < m.Type.NumIn(); j++ {
			pt := m.Type.In(j)
			if m.Type.IsVariadic() && j == m.Type.NumIn()-1 {
				pt = pt.Elem()
			}
			switch pt.Kind() {
			case reflect.Int, reflect.Int64, reflect.Int32:
			default:
				ok = false
			}
		}
		if ok {
			names = append(names, m.Name)
		}
	}
	sort.Strings(names)
	var called []string
	for _, r := range raws {
		if len(names) == 0 {
			break
		}
		name := names[mod(r, len(names))]
		m := v.MethodByName(name)
		mt := m.Type()
		var args []reflect.Value
		x := r / len(names)
		for j := 0; j < mt.NumIn(); j++ {
			pt := mt.In(j)
			if mt.IsVariadic() && j == mt.NumIn()-1 {
				for k := 0; k < 1+mod(x, 2); k++ {
					args = append(args, reflect.ValueOf(mod(x+k, 12)).Convert(pt.Elem()))
				}
				continue
			}
			args = append(args, reflect.ValueOf(mod(x, 12)).Convert(pt))
			x /= 3
		}
		m.Call(args)
		called = append(called, name)
	}
	return called
}
