package refl

import (
	"pgregory.net/rapid"

	"verif/harness/internal/dom"
)

// GenCfg draws a valid configuration (the two documented constructor
// preconditions — capacity >= 1, order >= 3 — are respected).
// GenCfgFloat draws a configuration of the float64 variant (default constructors).
func GenCfgFloat(t *rapid.T, kind string) Cfg {
	c := GenCfg(t, kind)
	c.Elem, c.Cmp = "float", ""
	return c
}

// GenCfgElem draws a configuration of another element family ("any", "uint8",
// "int13"); the comparators of these families are the natural and the reversed order.
func GenCfgElem(t *rapid.T, kind, elem string) Cfg {
	c := GenCfg(t, kind)
	c.Elem = elem
	switch c.Cmp {
	case dom.Mag, dom.Big32:
		c.Cmp = dom.Nat
	case "revmag", dom.Ext:
		c.Cmp = dom.Rev
	}
	return c
}

func GenCfg(t *rapid.T, kind string) Cfg {
	c := Cfg{Kind: kind}
	switch kind {
	case "treeset", "priorityqueue", "treemap", "treebidimap", "redblacktree", "avltree", "btree", "binaryheap":
		c.Cmp = []string{dom.Nat, dom.Rev, dom.Mag, "revmag", dom.Big32, dom.Ext}[rapid.IntRange(0, 5).Draw(t, "cmp")]
	}
	if kind == "circularbuffer" {
		caps := []int{1, 2, 3, 4, 7, 8, 16, 33, 64, 100}
		if Ladder != nil && rapid.IntRange(0, 9).Draw(t, "large-ring") == 6 {
			caps = LargeCaps
		}
		c.Cap = caps[rapid.IntRange(0, len(caps)-1).Draw(t, "cap")]
	}
	if kind == "btree" {
		c.Order = []int{3, 4, 5, 8, 9, 16, 129, 300}[rapid.IntRange(0, 7).Draw(t, "order")]
	}
	return c
}

var jsonSnippets = []string{
	`[]`, `{}`, `null`, `[1,2,3]`, `[3,1,2,1]`, `{"1":2,"3":4}`, `{"1":1,"2":1}`, `[1,"x",3]`, `{"a":1}`, `[null,null]`,
	`{"1":null}`, `[1,2`, `{"1":`, ``, ` `, `7`, `"s"`, `[[1]]`, `{"1":{"2":3}}`, `[1e400]`, `[1.5]`, `{"01":1,"1":2}`,
	`[1e5]`, `[-0]`, `[1.0]`, `{"-0":1,"+1":2}`, "\xef\xbb\xbf[1]", `[1,2,3,4,5,6,7,8,9,10,11,12,13,14,15,16,17,18,19,20,21,22,23,24,25,26,27,28,29,30,31,32,33,34,35,36,37,38,39,40]`,
	`{"1":1,"2":2,"3":3,"4":4,"5":5,"6":6,"7":7,"8":8,"9":9,"10":10,"11":11,"12":12,"13":13,"14":14,"15":15,"16":16,"17":17,"18":18,"19":19,"20":20}`,
	`[9223372036854775807,-9223372036854775808]`, `[9223372036854775808]`, `{"9223372036854775808":1}`,
	`[9,8,7,6,5,4,3,2,1,0]`, `{"5":5,"4":4,"3":3,"2":2,"1":1,"0":0}`, `tru`, `[1,]`, `{"1":1,}`, "[1]\x00", `{"1":1}{"2":2}`,
}

// GenBytes draws a byte string for []byte parameters: JSON aimed at the
// containers, mutated JSON, or raw bytes.
func GenBytes(t *rapid.T) []byte {
	switch dom.Weighted(t, "bytes", 70, 15, 15, 3) {
	case 3: // structurally extreme documents: very long arrays, very deep nesting
		n := []int{300, 1000, 10001, 20000}[rapid.IntRange(0, 3).Draw(t, "extreme")]
		if rapid.Bool().Draw(t, "deep") {
			return append(bytesRepeat('[', n), bytesRepeat(']', n)...)
		}
		b := []byte{'['}
		for i := 0; i < n && i < 300; i++ {
			if i > 0 {
				b = append(b, ',')
			}
			b = append(b, byte('0'+i%10))
		}
		return append(b, ']')
	case 0:
		return []byte(jsonSnippets[rapid.IntRange(0, len(jsonSnippets)-1).Draw(t, "snippet")])
	case 1:
		b := []byte(jsonSnippets[rapid.IntRange(0, len(jsonSnippets)-1).Draw(t, "snippet")])
		if len(b) > 0 {
			b = append([]byte(nil), b...)
			b[rapid.IntRange(0, len(b)-1).Draw(t, "pos")] = rapid.SampledFrom([]byte(`,:"[]{}0n\ x-`)).Draw(t, "byte")
		}
		return b
	default:
		return rapid.SliceOfN(rapid.Byte(), 0, 10).Draw(t, "raw")
	}
}

// Ladder lists the value counts of rare huge variadic calls (nil: none).  A check
// sets it to what its per-step cost allows.
var Ladder []int

// LadderRepeatCap bounds the repeat count taken from the ladder (every repetition is a reflective call).
var LadderRepeatCap = 2100

// LadderOdds: one bulk draw in 80*LadderOdds is a ladder step.
var LadderOdds = 4

// LargeCaps are the ring capacities drawn (one configuration in ten) when Ladder is set.
var LargeCaps = []int{255, 300, 1000, 1025, 2048, 4100}

var iterCalls = []string{"Next", "Next", "Next", "Prev", "Prev", "Begin", "End", "First", "Last", "NextTo", "PrevTo", "Value", "Value", "Key", "Index", "Node"}

// GenRot draws the per-case rotation of the method table.  rapid's integer
// draws are biased towards small values; rotating the table by a per-case
// amount spreads that bias over all methods without tying a step's method to
// its position (which would defeat shrinking by step deletion).
func GenRot(t *rapid.T, methods []string) int {
	return rapid.IntRange(0, len(methods)-1).Draw(t, "rot")
}

// Small is set by GenSteps for kinds whose observers are quadratic (the heap's
// Values()/String()/iteration rebuild a level per element): bulk steps stay small there.
var heavyKinds = map[string]bool{"binaryheap": true, "priorityqueue": true}

// GenStep draws one step among the given method names.
func GenStep(t *rapid.T, methods []string, rot int) Step { return genStep(t, methods, rot, false) }

func genStep(t *rapid.T, methods []string, rot int, small bool) Step {
	x := rapid.IntRange(0, 1<<20).Draw(t, "method")
	s := Step{M: methods[(x*7919+rot)%len(methods)]}
	s.R = rapid.SliceOfN(rapid.IntRange(0, 1<<22), 1, 8).Draw(t, "raw")
	switch s.M {
	case "Add", "Append", "Prepend", "Insert", "Put", "Push", "Enqueue", "Remove", "Pop", "Dequeue":
		switch rapid.IntRange(0, 79).Draw(t, "bulk") {
		case 0: // the same call many times (one value per call): hundreds of elements, long removal runs
			s.N = rapid.IntRange(20, 160).Draw(t, "repeat")
			if small {
				s.N = 12 + s.N%24
			} else if Ladder != nil && rapid.IntRange(0, 39).Draw(t, "repeat-ladder") == 23 {
				s.N = min(Ladder[rapid.IntRange(0, len(Ladder)-1).Draw(t, "ladder")], LadderRepeatCap) // e.g. more enqueues than a large ring holds
			}
			s.V = 1
		case 1, 2: // one variadic call with many values
			s.V = []int{8, 9, 16, 33, 64, 70, 129, 300}[rapid.IntRange(0, 7).Draw(t, "many")]
			if small {
				s.V = 8 + s.V%3
			}
		case 41: // (a mid-range value: rapid's integer draws favour the small ones) the size ladder: past the thresholds at which an implementation may switch strategy
			if Ladder != nil && !small && rapid.IntRange(0, LadderOdds-1).Draw(t, "ladder-step") == 0 {
				s.V = Ladder[rapid.IntRange(0, len(Ladder)-1).Draw(t, "ladder")]
			}
		}
	}
	switch s.M {
	case "FromJSON", "UnmarshalJSON":
		s.B = GenBytes(t)
	case "Iterator", "IteratorAt":
		n := rapid.IntRange(0, 12).Draw(t, "nit")
		if rapid.IntRange(0, 9).Draw(t, "long-walk") == 0 {
			n = rapid.IntRange(12, 70).Draw(t, "nit-long")
		}
		for j := 0; j < n; j++ {
			y := rapid.IntRange(0, 1<<12).Draw(t, "itcall")
			s.It = append(s.It, iterCalls[(y*31+j*7)%len(iterCalls)])
		}
	}
	return s
}

// GenSteps draws a script.  It is built from slices of a custom step
// generator so that rapid can shrink by deleting steps anywhere in the script;
// several chunks are concatenated because rapid's slices are short on average.
func GenSteps(t *rapid.T, methods []string, chunks, maxPerChunk int) []Step {
	return GenStepsFor(t, "", methods, chunks, maxPerChunk)
}

// GenStepsFor is GenSteps with the container kind known (bulk steps are kept
// small for kinds with quadratic observers, and fewer chunks are drawn).
func GenStepsFor(t *rapid.T, kind string, methods []string, chunks, maxPerChunk int) []Step {
	small := heavyKinds[kind]
	if small && chunks > 2 {
		chunks = 2
	}
	rot := GenRot(t, methods)
	step := rapid.Custom(func(t *rapid.T) Step { return genStep(t, methods, rot, small) })
	var out []Step
	for i := 0; i < chunks; i++ {
		out = append(out, rapid.SliceOfN(step, 0, maxPerChunk).Draw(t, "steps")...)
	}
	return out
}

func bytesRepeat(c byte, n int) []byte {
	b := make([]byte, n)
	for i := range b {
		b[i] = c
	}
	return b
}
