#!/bin/sh
# usage: tools/try_mutant.sh <patch.diff> <property id>...   (applies to /repo, runs quick checks, reverts)
set -u
patch="$(realpath "$1")"; shift
cd /verif
if ! git -C /repo diff --quiet; then echo "/repo has uncommitted changes; refusing" >&2; exit 3; fi
git -C /repo apply "$patch" || { echo "patch does not apply" >&2; exit 3; }
trap 'git -C /repo checkout -- . ' EXIT INT TERM
for id in "$@"; do
  out=$(VERIF_EVIDENCE_DIR=/verif/.work/mutant-evidence ./check "$id" ${TIER:-quick} 2>&1); code=$?
  echo "== $(basename $patch) vs $id: exit $code"
  echo "$out" | grep -E 'VIOLATION|KNOWN|INCONCLUSIVE|^OK|^\s+\[' | head -6
done
