package c04

import (
	"testing"

	"verif/harness/internal/refl"
)

// TestTypeIsomorphism carries the verdicts of this package's int-based checks over to
// Container[any] (nil, pointers, errors, mixed dynamic types as elements): one script
// on both instantiations must give corresponding results (internal/refl/iso.go).
func TestTypeIsomorphism(t *testing.T) {
	refl.IsoTargets(t, 600, "hashset", "treeset", "linkedhashset")
}
