// Package kvh is the shared history engine for the key-value containers
// (C01, C02, C07, C10): case type, generator, container construction and the
// comparator-aware reference model.
package kvh

import (
	"fmt"
	"sort"
	"strconv"
	"strings"
	"verif/harness/internal/via"

	"github.com/emirpasic/gods/v2/maps/hashbidimap"
	"github.com/emirpasic/gods/v2/maps/hashmap"
	"github.com/emirpasic/gods/v2/maps/linkedhashmap"
	"github.com/emirpasic/gods/v2/maps/treebidimap"
	"github.com/emirpasic/gods/v2/maps/treemap"
	"github.com/emirpasic/gods/v2/trees/avltree"
	"github.com/emirpasic/gods/v2/trees/btree"
	"github.com/emirpasic/gods/v2/trees/redblacktree"
	"pgregory.net/rapid"

	"verif/harness/internal/dom"
)

// Kinds of key-value containers.
const (
	HashMap       = "hashmap"
	TreeMap       = "treemap"
	LinkedHashMap = "linkedhashmap"
	RBT           = "redblacktree"
	AVL           = "avltree"
	BTree         = "btree"
	HashBidi      = "hashbidimap"
	TreeBidi      = "treebidimap"
)

var AllKinds = []string{HashMap, TreeMap, LinkedHashMap, RBT, AVL, BTree, HashBidi, TreeBidi}

// Ordered reports whether the kind enumerates by comparator.
func Ordered(kind string) bool {
	switch kind {
	case TreeMap, RBT, AVL, BTree, TreeBidi:
		return true
	}
	return false
}

// Bidi reports whether the kind is a bidirectional map.
func Bidi(kind string) bool { return kind == HashBidi || kind == TreeBidi }

// Op is one step of a history.  Atomic ops: put, rem, get, clear.  Run ops
// (putrun, remrun) stand for N atomic ops on keys K, K+S, K+2S, … and are
// expanded by Expand; probe ops are interpreted by the property packages.
type Op struct {
	O string `json:"o"`
	K int    `json:"k,omitempty"`
	V int    `json:"v,omitempty"`
	N int    `json:"n,omitempty"`
	S int    `json:"s,omitempty"`
	// load: the member names (keys) of a JSON object given to FromJSON, in document
	// order; the value of each key is fixed by LoadPairs.
	L []int `json:"l,omitempty"`
	// load: how the document is spoiled — 0 not at all; 1 a further member whose value
	// has the wrong type (well-formed JSON, the load must fail and change nothing);
	// 2 the document is `null` (succeeds, denotes no pairs); 3 the closing brace is cut off.
	B int `json:"b,omitempty"`
}

// LoadPairs turns the keys of a load op into the (key, value) members of the
// document.  Identical keys are dropped (no duplicate member names).  FromJSON
// decodes into a Go map and re-inserts in map order, so WHICH of several keys of
// one comparator class is inserted last is not determined: all keys of a class
// therefore carry one value (1000 + position of the class's first key), and keys
// of different classes carry different values (one-to-one for the bidi maps).
func LoadPairs(cmpID string, keys []int) [][2]int {
	cmp := dom.Cmp(dom.Nat)
	if cmpID != "" {
		cmp = dom.Cmp(cmpID)
	}
	var out [][2]int
	for _, k := range keys {
		dup, v := false, 1000+len(out)
		for _, p := range out {
			if p[0] == k {
				dup = true
				break
			}
		}
		if dup {
			continue
		}
		for _, p := range out {
			if cmp(p[0], k) == 0 {
				v = p[1]
				break
			}
		}
		out = append(out, [2]int{k, v})
	}
	return out
}

// LoadDoc renders the pairs as a JSON object (members in the given order), or —
// for sets — as the array of the keys.
func LoadDoc(pairs [][2]int, array bool) []byte {
	var sb strings.Builder
	if array {
		sb.WriteByte('[')
	} else {
		sb.WriteByte('{')
	}
	for i, p := range pairs {
		if i > 0 {
			sb.WriteByte(',')
		}
		if array {
			fmt.Fprintf(&sb, "%d", p[0])
		} else {
			fmt.Fprintf(&sb, "%q:%d", strconv.Itoa(p[0]), p[1])
		}
	}
	if array {
		sb.WriteByte(']')
	} else {
		sb.WriteByte('}')
	}
	return []byte(sb.String())
}

// Load gives the document of the pairs to the container's FromJSON.
func (b *Box) Load(pairs [][2]int) error {
	doc := LoadDoc(pairs, false)
	switch {
	case b.RBT != nil:
		return via.Auto(b.RBT, doc)
	case b.AVL != nil:
		return via.Auto(b.AVL, doc)
	case b.BT != nil:
		return via.Auto(b.BT, doc)
	case b.TreeMap != nil:
		return via.Auto(b.TreeMap, doc)
	case b.HashMap != nil:
		return via.Auto(b.HashMap, doc)
	case b.Linked != nil:
		return via.Auto(b.Linked, doc)
	case b.HashBidi != nil:
		return via.Auto(b.HashBidi, doc)
	case b.TreeBidi != nil:
		return via.Auto(b.TreeBidi, doc)
	}
	panic("kvh: Load on unknown kind")
}

// LoadRaw hands doc to the container (entry point chosen by the document's bytes).
func (b *Box) LoadRaw(doc []byte) error {
	switch {
	case b.RBT != nil:
		return via.Auto(b.RBT, doc)
	case b.AVL != nil:
		return via.Auto(b.AVL, doc)
	case b.BT != nil:
		return via.Auto(b.BT, doc)
	case b.TreeMap != nil:
		return via.Auto(b.TreeMap, doc)
	case b.HashMap != nil:
		return via.Auto(b.HashMap, doc)
	case b.Linked != nil:
		return via.Auto(b.Linked, doc)
	case b.HashBidi != nil:
		return via.Auto(b.HashBidi, doc)
	case b.TreeBidi != nil:
		return via.Auto(b.TreeBidi, doc)
	}
	panic("kvh: LoadRaw on unknown kind")
}

// DoLoad performs a load op.  replace reports whether the model's content becomes
// pairs (a load that succeeds) or must stay as it is (a load that fails: it is
// neither a Put nor a Remove nor a Clear).  err is non-nil when the container's
// verdict on the document differs from encoding/json's.
func (b *Box) DoLoad(cmpID string, op Op) (pairs [][2]int, replace bool, err error) {
	pairs = LoadPairs(cmpID, op.L)
	doc := LoadDoc(pairs, false)
	wantErr := false
	switch op.B {
	case 1:
		extra := `"2000000":"oops"}`
		if len(pairs) > 0 {
			extra = "," + extra
		}
		doc = append(doc[:len(doc)-1:len(doc)-1], extra...)
		wantErr = true
	case 2:
		doc, pairs = []byte("null"), nil
	case 3:
		doc = doc[:len(doc)-1]
		wantErr = true
	}
	got := b.LoadRaw(doc)
	switch {
	case wantErr && got == nil:
		return pairs, false, fmt.Errorf("%s(%s) returned no error, encoding/json rejects the document", via.AutoName(doc), doc)
	case !wantErr && got != nil:
		return pairs, false, fmt.Errorf("%s(%s) failed: %v", via.AutoName(doc), doc, got)
	}
	return pairs, !wantErr, nil
}

type Case struct {
	Kind  string `json:"kind"`
	Cmp   string `json:"cmp,omitempty"`  // key comparator id (ordered kinds)
	VCmp  string `json:"vcmp,omitempty"` // value comparator id (TreeBidiMap)
	Order int    `json:"order,omitempty"`
	Ops   []Op   `json:"ops"`
}

// Expand turns run ops into atomic ops.
func Expand(ops []Op) []Op {
	out := make([]Op, 0, len(ops))
	for _, op := range ops {
		switch op.O {
		case "putrun":
			for i := 0; i < op.N; i++ {
				out = append(out, Op{O: "put", K: op.K + i*op.S, V: op.V + i})
			}
		case "remrun":
			for i := 0; i < op.N; i++ {
				out = append(out, Op{O: "rem", K: op.K + i*op.S})
			}
		default:
			out = append(out, op)
		}
	}
	return out
}

// KV is the common surface of the eight containers instantiated at [int,int].
type KV interface {
	Put(k, v int)
	Get(k int) (int, bool)
	Remove(k int)
	Clear()
	Size() int
	Empty() bool
	Keys() []int
	Values() []int
	String() string
}

// Box is a constructed container with typed access to the concrete value.
type Box struct {
	KV
	Kind     string
	RBT      *redblacktree.Tree[int, int]
	AVL      *avltree.Tree[int, int]
	BT       *btree.Tree[int, int]
	TreeMap  *treemap.Map[int, int]
	HashMap  *hashmap.Map[int, int]
	Linked   *linkedhashmap.Map[int, int]
	HashBidi *hashbidimap.Map[int, int]
	TreeBidi *treebidimap.Map[int, int]
	// KeyCalls / ValCalls count comparator invocations (ordered kinds).
	KeyCalls, ValCalls *int
	// bystanders: other containers of the same kind with OTHER configurations (B-tree
	// order, comparator), alive next to the one under test.  Nothing they do may reach
	// it (and nothing it does may reach them): whatever is remembered per package
	// rather than per instance shows up here.
	bystanders []*bystander
	byCfg      int
	byOrder    int // the main B-tree's order
}

type bystander struct {
	kv   KV
	want map[int]int
	desc string
}

// GetKey is available on the bidirectional kinds.
func (b *Box) GetKey(v int) (int, bool) {
	if b.HashBidi != nil {
		return b.HashBidi.GetKey(v)
	}
	return b.TreeBidi.GetKey(v)
}

func counting(f func(a, b int) int, n *int) func(a, b int) int {
	return func(a, b int) int { *n++; return f(a, b) }
}

// New constructs the container described by c (fresh, empty).
func New(c Case) *Box {
	b := &Box{Kind: c.Kind, KeyCalls: new(int), ValCalls: new(int)}
	kc := counting(dom.Cmp(c.Cmp), b.KeyCalls)
	switch c.Kind {
	case HashMap:
		b.HashMap = hashmap.New[int, int]()
		b.KV = b.HashMap
	case LinkedHashMap:
		b.Linked = linkedhashmap.New[int, int]()
		b.KV = b.Linked
	case HashBidi:
		b.HashBidi = hashbidimap.New[int, int]()
		b.KV = b.HashBidi
	case TreeMap:
		b.TreeMap = treemap.NewWith[int, int](kc)
		b.KV = b.TreeMap
	case RBT:
		b.RBT = redblacktree.NewWith[int, int](kc)
		b.KV = b.RBT
	case AVL:
		b.AVL = avltree.NewWith[int, int](kc)
		b.KV = b.AVL
	case BTree:
		b.BT = btree.NewWith[int, int](c.Order, kc)
		b.KV = b.BT
	case TreeBidi:
		b.TreeBidi = treebidimap.NewWith[int, int](kc, counting(dom.Cmp(c.VCmp), b.ValCalls))
		b.KV = b.TreeBidi
	default:
		panic("kvh: unknown kind " + c.Kind)
	}
	b.byCfg, b.byOrder = c.Order+len(c.Cmp), c.Order
	b.addBystander()
	return b
}

// addBystander makes one more container of the same kind whose configuration differs
// from the main one and from the previous bystander, and puts a few keys into it.
func (b *Box) addBystander() {
	b.byCfg++
	orders := []int{3, 4, 5, 8, 16, 33, 64}
	cmps := []string{dom.Rev, dom.Nat, dom.Scr}
	order := orders[b.byCfg%len(orders)]
	if b.BT != nil && order == b.btOrder() {
		order = orders[(b.byCfg+1)%len(orders)]
	}
	kc := dom.Cmp(cmps[b.byCfg%len(cmps)])
	by := &bystander{want: map[int]int{}}
	switch b.Kind {
	case HashMap:
		by.kv = hashmap.New[int, int]()
	case LinkedHashMap:
		by.kv = linkedhashmap.New[int, int]()
	case HashBidi:
		by.kv = hashbidimap.New[int, int]()
	case TreeMap:
		by.kv = treemap.NewWith[int, int](kc)
	case RBT:
		by.kv = redblacktree.NewWith[int, int](kc)
	case AVL:
		by.kv = avltree.NewWith[int, int](kc)
	case BTree:
		by.kv = btree.NewWith[int, int](order, kc)
	case TreeBidi:
		by.kv = treebidimap.NewWith[int, int](kc, kc)
	}
	by.desc = fmt.Sprintf("bystander %s (order %d, comparator %s)", b.Kind, order, cmps[b.byCfg%len(cmps)])
	for i := 0; i < 6+b.byCfg%9; i++ {
		k := (i*7 + b.byCfg) % 23
		by.kv.Put(k, 500+k)
		by.want[k] = 500 + k
	}
	b.bystanders = append(b.bystanders, by)
	if len(b.bystanders) > 3 {
		b.bystanders = b.bystanders[1:]
	}
}

func (b *Box) btOrder() int { return b.byOrder }

// Poke uses the bystanders between two steps of the main history: one Put or Remove on
// each, a lookup, a size check, now and then a full comparison and a new bystander.
func (b *Box) Poke(step int) error {
	for _, by := range b.bystanders {
		k := (step*5 + 3) % 29
		if step%3 == 2 {
			by.kv.Remove(k)
			delete(by.want, k)
		} else {
			by.kv.Put(k, 600+step)
			by.want[k] = 600 + step
		}
		if v, ok := by.kv.Get(k); ok != (step%3 != 2) || ok && v != by.want[k] {
			return fmt.Errorf("%s: Get(%d) = (%d,%v) right after its own update at step %d of the main history", by.desc, k, v, ok, step)
		}
		if by.kv.Size() != len(by.want) {
			return fmt.Errorf("%s: Size()=%d, it holds %d keys (step %d of the main history)", by.desc, by.kv.Size(), len(by.want), step)
		}
		if step%8 == 0 {
			keys := by.kv.Keys()
			if len(keys) != len(by.want) {
				return fmt.Errorf("%s: Keys()=%v, it holds %d keys", by.desc, keys, len(by.want))
			}
			for _, k := range keys {
				if v, ok := by.kv.Get(k); !ok || v != by.want[k] {
					return fmt.Errorf("%s: Get(%d) = (%d,%v), want (%d,true)", by.desc, k, v, ok, by.want[k])
				}
			}
		}
	}
	if step%16 == 5 {
		b.addBystander()
	}
	return nil
}

// ---------------------------------------------------------------------------
// reference model: a map whose keys are equivalence classes of the comparator

type Ent struct {
	K, V int
	Seq  int // insertion sequence number (since the key was last absent)
}

type Model struct {
	cmp  func(a, b int) int
	ents []Ent // sorted by cmp
	seq  int
}

func NewModel(cmpID string) *Model { return &Model{cmp: dom.Cmp(cmpID)} }

func (m *Model) find(k int) (int, bool) {
	i := sort.Search(len(m.ents), func(i int) bool { return m.cmp(m.ents[i].K, k) >= 0 })
	return i, i < len(m.ents) && m.cmp(m.ents[i].K, k) == 0
}

func (m *Model) Len() int { return len(m.ents) }

func (m *Model) Get(k int) (int, bool) {
	if i, ok := m.find(k); ok {
		return m.ents[i].V, true
	}
	return 0, false
}

// Put returns true when the key (class) was already present.
func (m *Model) Put(k, v int) bool {
	i, ok := m.find(k)
	if ok {
		m.ents[i].K, m.ents[i].V = k, v
		return true
	}
	m.seq++
	m.ents = append(m.ents, Ent{})
	copy(m.ents[i+1:], m.ents[i:])
	m.ents[i] = Ent{K: k, V: v, Seq: m.seq}
	return false
}

// Remove returns true when the key (class) was present.
func (m *Model) Remove(k int) bool {
	i, ok := m.find(k)
	if !ok {
		return false
	}
	m.ents = append(m.ents[:i], m.ents[i+1:]...)
	return true
}

func (m *Model) Clear() { m.ents = m.ents[:0] }

// Sorted returns the entries in comparator order (shared slice: do not modify).
func (m *Model) Sorted() []Ent { return m.ents }

// BySeq returns the entries in insertion order.
func (m *Model) BySeq() []Ent {
	out := append([]Ent(nil), m.ents...)
	sort.Slice(out, func(i, j int) bool { return out[i].Seq < out[j].Seq })
	return out
}

// Floor: greatest entry not above k.
func (m *Model) Floor(k int) (Ent, bool) {
	i, ok := m.find(k)
	if ok {
		return m.ents[i], true
	}
	if i == 0 {
		return Ent{}, false
	}
	return m.ents[i-1], true
}

// Ceiling: least entry not below k.
func (m *Model) Ceiling(k int) (Ent, bool) {
	i, _ := m.find(k)
	if i == len(m.ents) {
		return Ent{}, false
	}
	return m.ents[i], true
}

// Same reports whether a and b are one key under the model's comparator.
func (m *Model) Same(a, b int) bool { return m.cmp(a, b) == 0 }

// Cmp exposes the comparator.
func (m *Model) Cmp(a, b int) int { return m.cmp(a, b) }

// BidiModel is the two-map model of a bidirectional map (total comparators,
// so keys and values are compared by ==).
type BidiModel struct {
	Fwd map[int]int
	Inv map[int]int
}

func NewBidiModel() *BidiModel { return &BidiModel{Fwd: map[int]int{}, Inv: map[int]int{}} }

// Put applies the stated eviction rule and reports which collision classes occurred.
func (b *BidiModel) Put(k, v int) (keyHeld, valueHeld bool) {
	if v0, ok := b.Fwd[k]; ok {
		keyHeld = true
		delete(b.Inv, v0)
	}
	if k0, ok := b.Inv[v]; ok {
		valueHeld = true
		delete(b.Fwd, k0)
	}
	b.Fwd[k] = v
	b.Inv[v] = k
	return
}

func (b *BidiModel) Remove(k int) bool {
	v, ok := b.Fwd[k]
	if ok {
		delete(b.Fwd, k)
		delete(b.Inv, v)
	}
	return ok
}

func (b *BidiModel) Clear() { b.Fwd, b.Inv = map[int]int{}, map[int]int{} }

// ---------------------------------------------------------------------------
// generator

// GenParams tunes the history generator.
type GenParams struct {
	Kind      string
	Cmps      []string // comparator ids to draw from (ordered kinds); nil = nat only
	Orders    []int    // B-tree orders to draw from
	MaxOps    int      // upper bound on the number of (unexpanded) ops
	Ranges    []int    // key range upper bounds to draw from
	RunMax    int      // max length of a run op (0 = no runs)
	SmallVals bool     // values from the key range (bidi collisions) instead of a counter
	Stride    int      // keys are multiples of Stride (>=1); probes fall between neighbours
	Probes    bool     // also emit "probe" ops (C02) with arbitrary keys
	BadLoads  bool     // load ops may also be spoiled (Op.B): documents that must be rejected, and null
	Loads     bool     // also emit "load" ops: FromJSON of a generated object replaces the content
}

var DefaultOrders = []int{3, 4, 5, 6, 7, 8, 9, 16, 33, 40, 64, 100}

// Gen returns a rapid generator of cases.  All randomness comes from rapid; a
// tiny live-key set is tracked so that removals of present keys are common.
func Gen(p GenParams) func(t *rapid.T) Case {
	if p.Stride < 1 {
		p.Stride = 1
	}
	if len(p.Ranges) == 0 {
		p.Ranges = []int{7, 40, 300}
	}
	return func(t *rapid.T) Case {
		c := Case{Kind: p.Kind}
		if Ordered(p.Kind) {
			c.Cmp = dom.Nat
			if len(p.Cmps) > 0 {
				c.Cmp = p.Cmps[rapid.IntRange(0, len(p.Cmps)-1).Draw(t, "cmp")]
			}
		}
		if p.Kind == TreeBidi {
			c.VCmp = dom.TotalCmps[rapid.IntRange(0, len(dom.TotalCmps)-1).Draw(t, "vcmp")]
		}
		if p.Kind == BTree {
			orders := p.Orders
			if len(orders) == 0 {
				orders = DefaultOrders
			}
			c.Order = orders[rapid.IntRange(0, len(orders)-1).Draw(t, "order")]
		}
		hi := p.Ranges[rapid.IntRange(0, len(p.Ranges)-1).Draw(t, "range")]
		key := func(label string) int { return rapid.IntRange(0, hi).Draw(t, label) * p.Stride }
		n := rapid.IntRange(0, p.MaxOps).Draw(t, "n")
		var live []int // keys put and not yet removed (raw, comparator-agnostic)
		nextV := 1
		val := func() int {
			if p.SmallVals {
				return rapid.IntRange(0, hi).Draw(t, "v")
			}
			v := nextV
			nextV++
			return v
		}
		pw, rw, gw, cw, runw, prw := 40, 28, 6, 1, 0, 0
		if p.RunMax > 0 {
			runw = 6
		}
		if p.Probes {
			prw = 30
		}
		lw := 0
		if p.Loads {
			lw = 3
		}
		for i := 0; i < n; i++ {
			switch dom.Weighted(t, "op", 1, pw, rw, gw, cw, runw, runw, prw, lw) {
			case 0:
			case 1:
				k := key("k")
				if len(live) > 0 && rapid.IntRange(0, 3).Draw(t, "overwrite") == 0 {
					k = live[rapid.IntRange(0, len(live)-1).Draw(t, "li")]
				}
				c.Ops = append(c.Ops, Op{O: "put", K: k, V: val()})
				live = append(live, k)
			case 2:
				k := key("k")
				if len(live) > 0 && rapid.IntRange(0, 4).Draw(t, "present") != 0 {
					j := rapid.IntRange(0, len(live)-1).Draw(t, "li")
					k = live[j]
					live = append(live[:j], live[j+1:]...)
				}
				c.Ops = append(c.Ops, Op{O: "rem", K: k})
			case 3:
				c.Ops = append(c.Ops, Op{O: "get", K: key("k")})
			case 4:
				c.Ops = append(c.Ops, Op{O: "clear"})
				live = live[:0]
			case 5:
				ln := rapid.IntRange(2, p.RunMax).Draw(t, "len")
				st := []int{1, -1, 2, -3}[rapid.IntRange(0, 3).Draw(t, "step")] * p.Stride
				k := key("k")
				c.Ops = append(c.Ops, Op{O: "putrun", K: k, V: nextV, N: ln, S: st})
				nextV += ln
				for j := 0; j < ln && j < 8; j++ {
					live = append(live, k+j*st)
				}
			case 6:
				ln := rapid.IntRange(2, p.RunMax).Draw(t, "len")
				st := []int{1, -1, 2, -3}[rapid.IntRange(0, 3).Draw(t, "step")] * p.Stride
				c.Ops = append(c.Ops, Op{O: "remrun", K: key("k"), N: ln, S: st})
			case 8:
				// load: a document of fresh keys, some of them currently live
				ks := rapid.SliceOfN(rapid.IntRange(0, hi), 0, 14).Draw(t, "load")
				for j := range ks {
					ks[j] *= p.Stride
					if len(live) > 0 && j%3 == 2 {
						ks[j] = live[(j*7+len(ks))%len(live)]
					}
				}
				op := Op{O: "load", L: ks}
				if p.BadLoads {
					switch rapid.IntRange(0, 11).Draw(t, "spoil") {
					case 5:
						op.B = 1
					case 6:
						op.B = 2
					case 7:
						op.B = 3
					}
				}
				c.Ops = append(c.Ops, op)
				switch op.B {
				case 0:
					live = append(live[:0], ks...)
				case 2:
					live = live[:0]
				}
			case 7:
				// probe key: anywhere in (and a little outside) the key range, not tied to the stride
				c.Ops = append(c.Ops, Op{O: "probe", K: rapid.IntRange(-2, hi*p.Stride+2).Draw(t, "pk")})
			}
		}
		return c
	}
}

// Describe is used in error messages.
func (c Case) Describe() string {
	s := c.Kind
	if c.Cmp != "" {
		s += "/" + c.Cmp
	}
	if c.Order != 0 {
		s += fmt.Sprintf("/m=%d", c.Order)
	}
	return s
}

// Permutations calls f with every permutation of 0..k-1 (Heap's algorithm); f
// must not retain the slice.  It stops early when f returns false.
func Permutations(k int, f func([]int) bool) {
	a := make([]int, k)
	for i := range a {
		a[i] = i
	}
	var rec func(n int) bool
	rec = func(n int) bool {
		if n <= 1 {
			return f(a)
		}
		for i := 0; i < n; i++ {
			if !rec(n - 1) {
				return false
			}
			if n%2 == 0 {
				a[i], a[n-1] = a[n-1], a[i]
			} else {
				a[0], a[n-1] = a[n-1], a[0]
			}
		}
		return true
	}
	rec(k)
}

// PermutationPairs enumerates insertion-permutation x removal-permutation
// histories of k distinct keys (keys 0,2,4,…) for the given kind/order,
// partitioned over shards by mine(idx).
func PermutationPairs(kind string, order, k int, idx *int, mine func(int) bool, yield func(Case) bool) bool {
	ok := true
	Permutations(k, func(ins []int) bool {
		insC := append([]int(nil), ins...)
		Permutations(k, func(rem []int) bool {
			*idx++
			if !mine(*idx) {
				return true
			}
			c := Case{Kind: kind, Order: order, Ops: make([]Op, 0, 2*k)}
			if Ordered(kind) {
				c.Cmp = dom.Nat
			}
			for j, key := range insC {
				c.Ops = append(c.Ops, Op{O: "put", K: key * 2, V: j + 1})
			}
			for _, key := range rem {
				c.Ops = append(c.Ops, Op{O: "rem", K: key * 2})
			}
			ok = yield(c)
			return ok
		})
		return ok
	})
	return ok
}
