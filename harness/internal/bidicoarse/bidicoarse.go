// Package bidicoarse holds the TreeBidiMap check with many-to-one comparators,
// hosted by C01 (the bidirectional maps obey the map rule) and C10.
package bidicoarse

import (
	"fmt"

	"pgregory.net/rapid"

	"verif/harness/internal/dom"
	"verif/harness/internal/kvh"
	"verif/harness/internal/pbt"
)

// checkCoarse is the oracle for a TreeBidiMap whose key and/or value comparator
// is many-to-one: keys (values) that compare equal are one key (value), so the
// model is a bijection between key classes and value classes and results are
// compared with it modulo the comparators.  Which representative of a class is
// stored is pinned down without a model, by the property's own words: every key
// listed by Keys() has Get(k) = (v, true) and GetKey(v) = (k, true) with exactly
// that k, and Values() lists exactly the current values of the listed keys.
func Check(c kvh.Case) (pbt.Info, error) {
	var info pbt.Info
	box := kvh.New(c)
	kc, vc := dom.Cmp(c.Cmp), dom.Cmp(c.VCmp)
	type pr struct{ k, v int }
	var pairs []pr
	findK := func(k int) int {
		for i, p := range pairs {
			if kc(p.k, k) == 0 {
				return i
			}
		}
		return -1
	}
	findV := func(v int) int {
		for i, p := range pairs {
			if vc(p.v, v) == 0 {
				return i
			}
		}
		return -1
	}
	del := func(i int) { pairs = append(pairs[:i], pairs[i+1:]...) }
	lo, hi := 0, 0
	for _, op := range c.Ops {
		lo, hi = min(lo, op.K, op.V), max(hi, op.K, op.V)
	}
	fail := func(i int, op kvh.Op, format string, a ...any) (pbt.Info, error) {
		return info, fmt.Errorf("%s/v:%s step %d %s(%d,%d): %s", c.Describe(), c.VCmp, i, op.O, op.K, op.V, fmt.Sprintf(format, a...))
	}
	var sameKeyNewValue, newKeySameValue bool
	for i, op := range c.Ops {
		switch op.O {
		case "put":
			ik, iv := findK(op.K), findV(op.V)
			switch {
			case ik >= 0 && iv < 0:
				sameKeyNewValue = true
			case ik < 0 && iv >= 0:
				newKeySameValue = true
			}
			if ik >= 0 {
				del(ik)
			}
			if j := findV(op.V); j >= 0 {
				del(j)
			}
			pairs = append(pairs, pr{op.K, op.V})
			box.Put(op.K, op.V)
		case "rem":
			if j := findK(op.K); j >= 0 {
				del(j)
			}
			box.Remove(op.K)
		case "clear":
			pairs = nil
			box.Clear()
		default:
			continue
		}
		n := len(pairs)
		keys, vals := box.Keys(), box.Values()
		if box.Size() != n || len(keys) != n || len(vals) != n {
			return fail(i, op, "Size()=%d len(Keys())=%d len(Values())=%d, model has %d pairs", box.Size(), len(keys), len(vals), n)
		}
		for j := 1; j < len(keys); j++ {
			if kc(keys[j-1], keys[j]) >= 0 {
				return fail(i, op, "Keys()=%v not strictly ascending under %s", keys, c.Cmp)
			}
		}
		for j := 1; j < len(vals); j++ {
			if vc(vals[j-1], vals[j]) >= 0 {
				return fail(i, op, "Values()=%v not strictly ascending under %s", vals, c.VCmp)
			}
		}
		// exact representatives: the two directions name each other, and Values() is
		// the multiset of the current values of the listed keys
		current := map[int]int{}
		for _, k := range keys {
			v, ok := box.Get(k)
			if !ok {
				return fail(i, op, "Keys()=%v lists %d but Get(%d) finds nothing", keys, k, k)
			}
			if bk, bok := box.GetKey(v); !bok || bk != k {
				return fail(i, op, "Get(%d) = (%d,true) but GetKey(%d) = (%d,%v): the inverse direction names another key", k, v, v, bk, bok)
			}
			current[v]++
		}
		for _, v := range vals {
			if current[v] == 0 {
				return fail(i, op, "Values()=%v lists %d, which is not the current value of any key in Keys()=%v", vals, v, keys)
			}
			current[v]--
			k, ok := box.GetKey(v)
			if !ok {
				return fail(i, op, "Values()=%v lists %d but GetKey(%d) finds nothing", vals, v, v)
			}
			if fv, fok := box.Get(k); !fok || fv != v {
				return fail(i, op, "GetKey(%d) = (%d,true) but Get(%d) = (%d,%v): the forward direction names another value", v, k, k, fv, fok)
			}
		}
		for x := lo - 1; x <= hi+1; x++ {
			j := findK(x)
			gv, gok := box.Get(x)
			if gok != (j >= 0) || gok && vc(gv, pairs[j].v) != 0 {
				return fail(i, op, "Get(%d) = (%d,%v), model pairs %v", x, gv, gok, pairs)
			}
			if gok {
				if bk, bok := box.GetKey(gv); !bok || kc(bk, x) != 0 {
					return fail(i, op, "Get(%d)=%d but GetKey(%d) = (%d,%v): directions disagree", x, gv, gv, bk, bok)
				}
			}
			j = findV(x)
			gk, gkok := box.GetKey(x)
			if gkok != (j >= 0) || gkok && kc(gk, pairs[j].k) != 0 {
				return fail(i, op, "GetKey(%d) = (%d,%v), model pairs %v", x, gk, gkok, pairs)
			}
			if gkok {
				if fv, fok := box.Get(gk); !fok || vc(fv, x) != 0 {
					return fail(i, op, "GetKey(%d)=%d but Get(%d) = (%d,%v): directions disagree", x, gk, gk, fv, fok)
				}
			}
		}
	}
	info.Label("coarse:" + c.Cmp + "/" + c.VCmp)
	info.NonTrivial = sameKeyNewValue && newKeySameValue
	return info, nil
}

func Gen(t *rapid.T) kvh.Case {
	c := kvh.Case{Kind: kvh.TreeBidi}
	// at least one of the two comparators is many-to-one
	switch rapid.IntRange(0, 2).Draw(t, "which") {
	case 0:
		c.Cmp, c.VCmp = []string{dom.Half, dom.Mod5}[rapid.IntRange(0, 1).Draw(t, "kc")], dom.TotalCmps[rapid.IntRange(0, len(dom.TotalCmps)-1).Draw(t, "vc")]
	case 1:
		c.Cmp, c.VCmp = dom.TotalCmps[rapid.IntRange(0, len(dom.TotalCmps)-1).Draw(t, "kc")], []string{dom.Half, dom.Mod5}[rapid.IntRange(0, 1).Draw(t, "vc")]
	default:
		c.Cmp, c.VCmp = []string{dom.Half, dom.Mod5}[rapid.IntRange(0, 1).Draw(t, "kc")], []string{dom.Half, dom.Mod5}[rapid.IntRange(0, 1).Draw(t, "vc")]
	}
	hi := []int{5, 9, 14}[rapid.IntRange(0, 2).Draw(t, "range")]
	n := rapid.IntRange(0, 30).Draw(t, "n")
	for i := 0; i < n; i++ {
		switch dom.Weighted(t, "op", 1, 60, 25, 2) {
		case 1:
			c.Ops = append(c.Ops, kvh.Op{O: "put", K: rapid.IntRange(0, hi).Draw(t, "k"), V: rapid.IntRange(0, hi).Draw(t, "v")})
		case 2:
			c.Ops = append(c.Ops, kvh.Op{O: "rem", K: rapid.IntRange(0, hi).Draw(t, "k")})
		case 3:
			c.Ops = append(c.Ops, kvh.Op{O: "clear"})
		}
	}
	return c
}

