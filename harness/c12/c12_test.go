// C12 — deserializing replaces content, keeps the container sound, and is
// atomic on error.
package c12

import (
	"bytes"
	"cmp"
	"encoding/json"
	"fmt"
	"slices"
	"strconv"
	"testing"

	"pgregory.net/rapid"

	"verif/harness/internal/all"
	"verif/harness/internal/dom"
	"verif/harness/internal/pbt"
	"verif/harness/internal/script"
)

func TestMain(m *testing.M) { pbt.Main(m, "C12") }

type Case struct {
	Cfg   all.Cfg     `json:"cfg"`
	Elem  string      `json:"elem"`           // int | string
	Prior []script.Op `json:"prior"`          // builds the prior content
	In    []byte      `json:"in"`             // the bytes given to FromJSON / json.Unmarshal (base64 in the case file)
	Show  string      `json:"show"`           // the same bytes, quoted, for the reader (ignored by the check)
	Via   string      `json:"via"`            // fromjson | unmarshal
	Cont  []script.Op `json:"cont"`           // follow-up operations
	More  [][]byte    `json:"more,omitempty"` // further inputs loaded one after the other right after In (each checked like In)
}

func check(c Case) (pbt.Info, error) {
	if c.Elem == "bigint" {
		return checkE(c, script.BigIntDomain, func(s string) (int, bool) {
			n, err := strconv.ParseInt(s, 10, 64)
			return int(n), err == nil
		})
	}
	if c.Elem == "int" {
		return checkE(c, script.IntDomain, func(s string) (int, bool) {
			n, err := strconv.ParseInt(s, 10, 64)
			return int(n), err == nil
		})
	}
	return checkE(c, script.StringDomain, func(s string) (string, bool) { return s, true })
}

func describe[E cmp.Ordered](s all.State[E]) string {
	if s.Keys != nil {
		var ps []string
		for _, k := range s.Keys {
			ps = append(ps, fmt.Sprintf("%#v:%#v", k, s.Pairs[k]))
		}
		return fmt.Sprintf("size=%d keys=%#v values=%#v pairs=%v", s.Size, s.Keys, s.Values, ps)
	}
	return fmt.Sprintf("size=%d values=%#v peek=(%#v,%v)", s.Size, s.Values, s.PeekV, s.PeekOK)
}

// objectKeyOrder lists the top-level keys of a JSON object in textual order.
func objectKeyOrder(in []byte) (keys []string, dup bool) {
	dec := json.NewDecoder(bytes.NewReader(in))
	if tok, err := dec.Token(); err != nil || tok != json.Delim('{') {
		return nil, false
	}
	seen := map[string]bool{}
	for dec.More() {
		tok, err := dec.Token()
		if err != nil {
			return keys, dup
		}
		k, _ := tok.(string)
		if seen[k] {
			dup = true
		}
		seen[k] = true
		keys = append(keys, k)
		var skip json.RawMessage
		if dec.Decode(&skip) != nil {
			return keys, dup
		}
	}
	return keys, dup
}

func checkE[E cmp.Ordered](c Case, d script.Domain[E], parseKey func(string) (E, bool)) (pbt.Info, error) {
	var info pbt.Info
	kind := c.Cfg.Kind
	fam := all.Family(kind)
	h := all.New[E](c.Cfg)
	m := script.NewModel[E](c.Cfg)
	for _, op := range c.Prior {
		script.Apply(h, d, op)
		m.Apply(d, op)
	}
	var (
		in         string
		err        error
		refErr     error
		refSlice   []E
		refMap     map[E]E
		priorLen   int
		anyNT      bool
		before     all.State[E]
		beforeJSON []byte
	)
	for li, inBytes := range append([][]byte{c.In}, c.More...) {
		before = h.Observe()
		beforeJSON, _ = h.ToJSON()
		priorLen = m.Len()
		refSlice, refMap = nil, nil
		if !all.EqualStates(before, m.Expect()) {
			return info, fmt.Errorf("%s: prior state %s differs from the model %s (a C01-C06 matter, reported here because it invalidates the case)", kind, describe(before), describe(m.Expect()))
		}

		// reference denotation: encoding/json into a FRESH slice / map
		if all.KeyValue(kind) {
			refErr = json.Unmarshal(inBytes, &refMap)
		} else {
			refErr = json.Unmarshal(inBytes, &refSlice)
		}

		if c.Via == "unmarshal" {
			err = json.Unmarshal(inBytes, h.AsJSON)
		} else {
			err = h.FromJSON(inBytes)
		}
		after := h.Observe()
		in = fmt.Sprintf("%q", inBytes)

		switch {
		case refErr != nil:
			info.Label("in:rejected-by-encoding/json")
		case bytes.Equal(bytes.TrimSpace(inBytes), []byte("null")):
			info.Label("in:null")
		case len(refSlice)+len(refMap) == 0:
			info.Label("in:empty")
		default:
			info.Label("in:valid-non-empty")
		}

		if err != nil {
			info.Label("out:error")
			// atomic on error: exactly as before
			if !all.EqualStates(before, after) {
				return info, fmt.Errorf("%s: %s(%s) returned error %q but changed the container: %s -> %s", kind, c.Via, in, err, describe(before), describe(after))
			}
			if aj, _ := h.ToJSON(); !all.Unordered(kind) && !bytes.Equal(aj, beforeJSON) {
				return info, fmt.Errorf("%s: %s(%s) returned error %q but ToJSON changed: %s -> %s", kind, c.Via, in, err, beforeJSON, aj)
			}
		} else {
			info.Label("out:ok")
			if refErr != nil {
				return info, fmt.Errorf("%s: %s(%s) returned nil although the input denotes nothing (encoding/json: %v); container now %s", kind, c.Via, in, refErr, describe(after))
			}
			// the content is exactly what the input denotes, under the kind's discipline
			m.Apply(d, script.Op{O: "clear"})
			switch fam {
			case "list", "queue":
				for _, x := range refSlice {
					if kind == "circularbuffer" && len(m.Seq) == c.Cfg.Cap {
						m.Seq = m.Seq[1:]
					}
					m.Seq = append(m.Seq, x)
				}
				if kind == "circularbuffer" {
					m.Enqueued = len(refSlice)
				}
			case "stack":
				if kind == "arraystack" { // serialises bottom-to-top
					for _, x := range refSlice {
						m.Seq = slices.Insert(m.Seq, 0, x)
					}
				} else { // linked stack: top-to-bottom
					m.Seq = slices.Clone(refSlice)
				}
			case "heap":
				m.Seq = slices.Clone(refSlice)
			case "set":
				for _, x := range refSlice {
					if _, ok := m.Map[x]; !ok {
						m.Map[x] = x
						m.Order = append(m.Order, x)
					}
				}
			case "map", "tree":
				for k, v := range refMap {
					m.Map[k] = v
				}
				if kind == "linkedhashmap" {
					order, dup := objectKeyOrder(inBytes)
					if dup {
						// position of a key that occurs twice is unspecified: adopt what the container did
						m.Order = slices.Clone(after.Keys)
						if len(m.Order) != len(m.Map) {
							return info, fmt.Errorf("linkedhashmap: %s(%s) holds keys %#v, input denotes %d keys", c.Via, in, after.Keys, len(m.Map))
						}
						info.Label("in:duplicate-keys")
					} else {
						for _, ks := range order {
							if k, ok := parseKey(ks); ok {
								if _, present := m.Map[k]; present && !slices.Contains(m.Order, k) {
									m.Order = append(m.Order, k)
								}
							}
						}
					}
				}
			case "bidi":
				// for each distinct value exactly one of the keys carrying it survives; which
				// one depends on Go's map order — any is accepted and the model adopts it
				byValue := map[E][]E{}
				for k, v := range refMap {
					byValue[v] = append(byValue[v], k)
				}
				if after.Size != len(byValue) {
					return info, fmt.Errorf("%s: %s(%s) holds %d pairs, the input denotes %d distinct values; state %s", kind, c.Via, in, after.Size, len(byValue), describe(after))
				}
				for k, v := range after.Pairs {
					if rv, ok := refMap[k]; !ok || rv != v {
						return info, fmt.Errorf("%s: %s(%s) holds pair %#v:%#v, which the input does not denote", kind, c.Via, in, k, v)
					}
					m.Map[k] = v
					m.Order = append(m.Order, k)
				}
				if len(m.Map) != len(byValue) {
					return info, fmt.Errorf("%s: %s(%s) is not one-to-one: %s", kind, c.Via, in, describe(after))
				}
			}
			if want := m.Expect(); !all.EqualStates(after, want) {
				return info, fmt.Errorf("%s: %s(%s) over prior %s gives %s, the input denotes %s", kind, c.Via, in, describe(before), describe(after), describe(want))
			}
			if h.Full != nil && h.Full() != (m.Len() == c.Cfg.Cap) {
				return info, fmt.Errorf("circularbuffer: Full()=%v with %d of %d after %s(%s)", h.Full(), m.Len(), c.Cfg.Cap, c.Via, in)
			}
		}

		shorterNow := err == nil && len(refSlice)+len(refMap) < priorLen
		if priorLen > 0 && (refErr != nil || shorterNow || bytes.Equal(bytes.TrimSpace(inBytes), []byte("null"))) {
			anyNT = true
		}
		if li > 0 {
			info.Label("successive-loads")
		}
	}

	// the container continues to satisfy its guarantees
	for i, op := range c.Cont {
		script.Apply(h, d, op)
		m.Apply(d, op)
		got, want := h.Observe(), m.Expect()
		if !all.EqualStates(got, want) {
			return info, fmt.Errorf("%s: after %s(%s) [err=%v], follow-up step %d %s(%d,%d,%v): state %s, model %s", kind, c.Via, in, err, i, op.O, op.X, op.Y, op.Xs, describe(got), describe(want))
		}
		if h.Empty() != (m.Len() == 0) {
			return info, fmt.Errorf("%s: follow-up step %d: Empty()=%v with %d elements", kind, i, h.Empty(), m.Len())
		}
	}
	// drain (stacks, queues, heaps): the pop sequence is the model's
	if h.Take != nil {
		want := m.Expect()
		less := all.Comparator[E](c.Cfg.Rev && all.UsesComparator(kind))
		wantSeq := want.Values
		if fam == "heap" {
			wantSeq = script.SortedBy(less, m.Seq)
		}
		for i, w := range wantSeq {
			v, ok := h.Take()
			if !ok || v != w {
				return info, fmt.Errorf("%s: after %s(%s) [err=%v] and %d follow-ups, drain position %d gives (%#v,%v), want %#v", kind, c.Via, in, err, len(c.Cont), i, v, ok, w)
			}
		}
		if v, ok := h.Take(); ok {
			return info, fmt.Errorf("%s: drain yields an extra element %#v", kind, v)
		}
	}

	info.NonTrivial = anyNT
	if priorLen > 0 {
		info.Label("prior:non-empty")
	}
	return info, nil
}

// ---------------------------------------------------------------------------
// input generator: (a) a JSON grammar aimed at the container, (b) mutations of
// it, (c) raw bytes

func elemJSON(t *rapid.T, elem string, n int, allowBad bool) string {
	w := dom.Weighted(t, "item", 60, 6, 5, 3, 2, 2)
	if !allowBad {
		w = 0
	}
	switch w {
	case 0: // a valid element of the domain
		i := rapid.IntRange(0, n-1).Draw(t, "e")
		if elem == "int" {
			return strconv.Itoa(script.IntDomain.At(i))
		}
		if elem == "bigint" {
			return strconv.Itoa(script.BigIntDomain.At(i))
		}
		b, _ := json.Marshal(script.StringDomain.At(i))
		return string(b)
	case 1:
		return "null"
	case 2: // wrong scalar type
		if elem == "int" || elem == "bigint" {
			return `"x"`
		}
		return "7"
	case 3:
		return []string{"true", "1.5", "1e400", "-0"}[rapid.IntRange(0, 3).Draw(t, "odd")]
	case 4:
		return "{}"
	default:
		return "[1]"
	}
}

func keyJSON(t *rapid.T, elem string, n int) string {
	i := rapid.IntRange(0, n-1).Draw(t, "k")
	if elem == "int" || elem == "bigint" {
		s := strconv.Itoa(script.IntDomain.At(i))
		if elem == "bigint" {
			s = strconv.Itoa(script.BigIntDomain.At(i))
		}
		switch rapid.IntRange(0, 11).Draw(t, "kform") {
		case 0:
			return `"x` + s + `"` // not a number: key type error
		case 1:
			return `"` + s + `.0"`
		}
		return `"` + s + `"`
	}
	k := script.StringDomain.At(i)
	if rapid.IntRange(0, 5).Draw(t, "esc") == 0 && len(k) > 0 && k[0] < 0x80 {
		// an escaped-but-equal spelling of the first character
		rest, _ := json.Marshal(k[1:])
		return fmt.Sprintf(`"\u%04x%s`, k[0], rest[1:])
	}
	b, _ := json.Marshal(k)
	return string(b)
}

func genInput(t *rapid.T, kind, elem string, capHint int) []byte {
	n := len(script.IntDomain.Elems)
	if elem == "string" {
		n = len(script.StringDomain.Elems)
	}
	if elem == "bigint" {
		n = len(script.BigIntDomain.Elems)
	}
	kv := all.KeyValue(kind)
	var doc string
	switch dom.Weighted(t, "top", 70, 5, 4, 4, 3, 6) {
	case 1:
		doc = "null"
	case 2:
		doc = "[]"
	case 3:
		doc = "{}"
	case 4:
		doc = []string{"7", `"a"`, "true", "", " ", "[", "{", "nul", "[]]", `{"a"}`}[rapid.IntRange(0, 9).Draw(t, "scalar")]
	case 5: // raw bytes
		return rapid.SliceOfN(rapid.Byte(), 0, 12).Draw(t, "raw")
	default:
		maxItems := 6
		if capHint > 0 {
			maxItems = capHint + 3 // longer than the ring
		}
		if elem == "bigint" {
			maxItems = []int{20, 70, 150, 2*capHint + 5}[rapid.IntRange(0, 3).Draw(t, "maxitems")]
		}
		cnt := rapid.IntRange(0, maxItems).Draw(t, "items")
		allowBad := rapid.IntRange(0, 2).Draw(t, "allowbad") == 0
		asObject := kv
		if rapid.IntRange(0, 14).Draw(t, "swap-shape") == 0 {
			asObject = !asObject
		}
		var buf bytes.Buffer
		if asObject {
			buf.WriteByte('{')
		} else {
			buf.WriteByte('[')
		}
		for i := 0; i < cnt; i++ {
			if i > 0 {
				buf.WriteByte(',')
			}
			if rapid.IntRange(0, 7).Draw(t, "ws") == 0 {
				buf.WriteString(" \n")
			}
			if asObject {
				buf.WriteString(keyJSON(t, elem, n))
				buf.WriteByte(':')
			}
			buf.WriteString(elemJSON(t, elem, n, allowBad))
		}
		if asObject {
			buf.WriteByte('}')
		} else {
			buf.WriteByte(']')
		}
		doc = buf.String()
	}
	in := []byte(doc)
	// (b) mutation
	switch dom.Weighted(t, "mut", 75, 8, 6, 5, 6) {
	case 1: // truncate
		if len(in) > 0 {
			in = in[:rapid.IntRange(0, len(in)-1).Draw(t, "cut")]
		}
	case 2: // overwrite one byte
		if len(in) > 0 {
			in = slices.Clone(in)
			in[rapid.IntRange(0, len(in)-1).Draw(t, "pos")] = rapid.SampledFrom([]byte(`,:"[]{}0n\ x`)).Draw(t, "byte")
		}
	case 3: // delete one byte
		if len(in) > 0 {
			p := rapid.IntRange(0, len(in)-1).Draw(t, "pos")
			in = append(slices.Clone(in[:p]), in[p+1:]...)
		}
	case 4: // trailing garbage / whitespace
		in = append(slices.Clone(in), rapid.SampledFrom([]string{" ", "\n", ",", "]", "x", "null"}).Draw(t, "tail")...)
	}
	return in
}

func gen(kind, elem string) func(t *rapid.T) Case {
	return func(t *rapid.T) Case {
		n := len(script.IntDomain.Elems)
		if elem == "string" {
			n = len(script.StringDomain.Elems)
		}
		c := Case{Cfg: script.GenCfg(t, kind), Elem: elem}
		if elem == "bigint" { // large prior content, long inputs, many follow-ups
			n = len(script.BigIntDomain.Elems)
			if kind == "circularbuffer" {
				c.Cfg.Cap = []int{9, 16, 31, 64, 100}[rapid.IntRange(0, 4).Draw(t, "bigcap")]
			}
			if kind == "btree" {
				c.Cfg.Order = []int{3, 4, 7, 16, 33}[rapid.IntRange(0, 4).Draw(t, "bigorder")]
			}
			c.Prior = script.GenOpsBig(t, kind, n)
			c.In = genInput(t, kind, elem, c.Cfg.Cap)
			c.Show = fmt.Sprintf("%q", c.In)
			c.Via = []string{"fromjson", "unmarshal"}[rapid.IntRange(0, 1).Draw(t, "via")]
			c.Cont = script.GenOps(t, kind, n, 40)
			return c
		}
		c.Prior = script.GenOps(t, kind, n, 10)
		c.In = genInput(t, kind, elem, c.Cfg.Cap)
		c.Show = fmt.Sprintf("%q", c.In)
		c.Via = "fromjson"
		if rapid.IntRange(0, 3).Draw(t, "via") == 0 {
			c.Via = "unmarshal"
		}
		if rapid.IntRange(0, 3).Draw(t, "successive") == 0 {
			k := rapid.IntRange(1, 2).Draw(t, "more")
			for i := 0; i < k; i++ {
				c.More = append(c.More, genInput(t, kind, elem, c.Cfg.Cap))
			}
		}
		c.Cont = script.GenOps(t, kind, n, 8)
		return c
	}
}

func TestGenerated(t *testing.T) {
	pbt.ReplayOnly(t, pbt.Target[Case]{Name: "fuzz", Check: check})
	for _, kind := range all.Kinds {
		for _, elem := range []string{"int", "string"} {
			pbt.Run(t, pbt.Target[Case]{Name: kind + "/" + elem, Checks: 4000, Gen: gen(kind, elem), Check: check})
		}
		pbt.Run(t, pbt.Target[Case]{Name: kind + "/bigint", Checks: 200, Gen: gen(kind, "bigint"), Check: check})
	}
}

// opsFromBytes decodes a byte string into a script (two bytes per operation).
func opsFromBytes(kind string, b []byte, n int) []script.Op {
	var ops []script.Op
	kv := all.KeyValue(kind)
	for i := 0; i+1 < len(b) && len(ops) < 12; i += 2 {
		x, y := int(b[i+1])%n, int(b[i+1]/16)%n
		switch b[i] % 8 {
		case 0, 1, 2:
			ops = append(ops, script.Op{O: "add", X: x})
		case 3, 4:
			if kv {
				ops = append(ops, script.Op{O: "put", X: x, Y: y})
			} else {
				ops = append(ops, script.Op{O: "addn", Xs: []int{x, y}})
			}
		case 5, 6:
			ops = append(ops, script.Op{O: "rem", X: x})
		default:
			ops = append(ops, script.Op{O: "clear"})
		}
	}
	return ops
}

// FuzzFromJSON is the coverage-guided byte-level target of the thorough tier:
// (configuration byte, prior-content script, input bytes, follow-up script),
// with the same semantic oracle as the generated check inside the target.
func FuzzFromJSON(f *testing.F) {
	seeds := []string{
		`["a","b","c"]`, `[1,2,3]`, `{"a":1,"b":2,"c":3}`, `{"a":"1","b":"2","c":"3"}`, `{"1":1,"2":2}`, `[]`, `{}`, `null`,
		`[7,8,"x",9]`, `[null,null]`, `{"a":1,"b":"z"}`, `[5,3,9,1]`, `{"a":"c","b":"1","c":"2"}`, `[1,2,3,4,5,6,7,8,9]`, `{"1":1,"2":1}`,
		`[1e400]`, `{"\u0061":1,"a":2}`, `[1,2`, `{"a":`, `[[1]]`, `{"a":{"b":1}}`, ` [ 1 , 2 ] `, `[1]x`, `{"x1":1}`, `{"1.0":1}`, "[\"\xff\"]",
	}
	for k := 0; k < len(all.Kinds)*4; k += 3 {
		for i, s := range seeds {
			if (i+k)%5 == 0 {
				f.Add(uint8(k), []byte{0, 1, 0, 2, 0, 3, 5, 1}, []byte(s), []byte{0, 4, 5, 2, 3, 7})
			}
		}
	}
	f.Fuzz(func(t *testing.T, cfgByte uint8, prior []byte, data []byte, cont []byte) {
		if len(data) > 4096 || len(prior) > 64 || len(cont) > 64 {
			t.Skip()
		}
		kind := all.Kinds[int(cfgByte/4)%len(all.Kinds)]
		c := Case{Elem: []string{"int", "string"}[cfgByte%2], Via: []string{"fromjson", "unmarshal"}[(cfgByte/2)%2]}
		c.Cfg = all.Cfg{Kind: kind}
		if all.UsesComparator(kind) {
			c.Cfg.Rev = len(prior)%2 == 1
		}
		if kind == "circularbuffer" {
			c.Cfg.Cap = 1 + len(cont)%4
		}
		if kind == "btree" {
			c.Cfg.Order = 3 + len(cont)%3
		}
		n := len(script.IntDomain.Elems)
		if c.Elem == "string" {
			n = len(script.StringDomain.Elems)
		}
		c.Prior = opsFromBytes(kind, prior, n)
		c.Cont = opsFromBytes(kind, cont, n)
		c.In = data
		c.Show = fmt.Sprintf("%q", data)
		if p, err := pbt.FuzzCase("C12", "fuzz", c, check); err != nil {
			t.Fatalf("violation: replay=%s %v", p, err)
		}
	})
}
