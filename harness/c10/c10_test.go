// C10 — bidirectional maps are always one-to-one in both directions.
package c10

import (
	"encoding/json"
	"fmt"
	"slices"
	"sort"
	"testing"

	"pgregory.net/rapid"

	"verif/harness/internal/dom"
	"verif/harness/internal/kvh"
	"verif/harness/internal/bidicoarse"
	"verif/harness/internal/pbt"
	"verif/harness/internal/via"
)

func TestMain(m *testing.M) { pbt.Main(m, "C10") }

func sorted(xs []int) []int {
	out := append([]int(nil), xs...)
	sort.Ints(out)
	return out
}

func check(c kvh.Case) (pbt.Info, error) {
	var info pbt.Info
	box := kvh.New(c)
	m := kvh.NewBidiModel()
	// the domain of keys and values that the oracle sweeps after every step
	lo, hi := 0, 0
	for _, op := range c.Ops {
		lo, hi = min(lo, op.K, op.V), max(hi, op.K, op.V)
	}
	var classNewKeySameValue, classSameKeyNewValue, classBoth, classRepeat bool
	displaced := map[[2]int]bool{} // pairs that were displaced and not re-put since
	fail := func(i int, op kvh.Op, format string, a ...any) (pbt.Info, error) {
		return info, fmt.Errorf("%s step %d %s(%d,%d): %s", c.Describe(), i, op.O, op.K, op.V, fmt.Sprintf(format, a...))
	}
	for i, op := range c.Ops {
		switch op.O {
		case "put":
			v0, kHeld := m.Fwd[op.K]
			k0, vHeld := m.Inv[op.V]
			switch {
			case kHeld && vHeld && v0 == op.V:
				classRepeat = true
			case kHeld && vHeld:
				classBoth = true
			case kHeld:
				classSameKeyNewValue = true
			case vHeld:
				classNewKeySameValue = true
			}
			if kHeld && v0 != op.V {
				displaced[[2]int{op.K, v0}] = true
			}
			if vHeld && k0 != op.K {
				displaced[[2]int{k0, op.V}] = true
			}
			delete(displaced, [2]int{op.K, op.V})
			m.Put(op.K, op.V)
			box.Put(op.K, op.V)
		case "rem":
			if v, ok := m.Fwd[op.K]; ok {
				displaced[[2]int{op.K, v}] = true
			}
			m.Remove(op.K)
			box.Remove(op.K)
		case "clear":
			for k, v := range m.Fwd {
				displaced[[2]int{k, v}] = true
			}
			m.Clear()
			box.Clear()
		case "load":
			// FromJSON of the object {K+i: V+(i mod S)}, i < N — several keys may carry one
			// value; for each distinct value exactly one of its keys survives (which one
			// depends on Go's map order), and the map must stay one-to-one
			doc := map[int]int{}
			for j := 0; j < op.N; j++ {
				doc[op.K+j] = op.V + j%max(op.S, 1)
			}
			data, _ := json.Marshal(doc)
			var err error
			if box.HashBidi != nil {
				err = via.Auto(box.HashBidi, data)
			} else {
				err = via.Auto(box.TreeBidi, data)
			}
			if err != nil {
				return fail(i, op, "FromJSON(%s) failed: %v", data, err)
			}
			for k, v := range m.Fwd {
				displaced[[2]int{k, v}] = true
			}
			m.Clear()
			byValue := map[int]bool{}
			for _, v := range doc {
				byValue[v] = true
			}
			keys := box.Keys()
			slices.Sort(keys)
			for _, k := range keys {
				v, ok := box.Get(k)
				if dv, in := doc[k]; !ok || !in || dv != v {
					return fail(i, op, "after FromJSON(%s) the map holds %d:%d, which the document does not denote", data, k, v)
				}
				if _, dup := m.Inv[v]; dup {
					return fail(i, op, "after FromJSON(%s) two keys carry the value %d", data, v)
				}
				m.Put(k, v)
				delete(displaced, [2]int{k, v})
			}
			if len(m.Fwd) != len(byValue) {
				return fail(i, op, "after FromJSON(%s) the map holds %d pairs, the document has %d distinct values", data, len(m.Fwd), len(byValue))
			}
			lo, hi = min(lo, op.K, op.V), max(hi, op.K+op.N, op.V+op.S)
		case "get", "probe":
			continue
		default:
			return info, fmt.Errorf("bad op %q", op.O)
		}
		n := len(m.Fwd)
		keys, vals := box.Keys(), box.Values()
		if box.Size() != n || len(keys) != n || len(vals) != n {
			return fail(i, op, "Size()=%d len(Keys())=%d len(Values())=%d, model has %d pairs", box.Size(), len(keys), len(vals), n)
		}
		if box.Empty() != (n == 0) {
			return fail(i, op, "Empty()=%v with %d pairs", box.Empty(), n)
		}
		var wk, wv []int
		for k, v := range m.Fwd {
			wk = append(wk, k)
			wv = append(wv, v)
		}
		if !slices.Equal(sorted(keys), sorted(wk)) {
			return fail(i, op, "Keys()=%v, model keys %v", keys, sorted(wk))
		}
		if !slices.Equal(sorted(vals), sorted(wv)) {
			return fail(i, op, "Values()=%v, model values %v (two keys share a value, or a stale inverse entry)", vals, sorted(wv))
		}
		for k := lo - 1; k <= hi+1; k++ {
			wantV, wantOK := m.Fwd[k]
			gv, gok := box.Get(k)
			if gok != wantOK || gv != wantV {
				return fail(i, op, "Get(%d) = (%d,%v), want (%d,%v)", k, gv, gok, wantV, wantOK)
			}
			if gok {
				if bk, bok := box.GetKey(gv); !bok || bk != k {
					return fail(i, op, "Get(%d)=%d but GetKey(%d) = (%d,%v): directions disagree", k, gv, gv, bk, bok)
				}
				if displaced[[2]int{k, gv}] {
					return fail(i, op, "Get(%d) returned the displaced pair (%d,%d)", k, k, gv)
				}
			}
			wantK, wantKOK := m.Inv[k]
			gk, gkok := box.GetKey(k)
			if gkok != wantKOK || gk != wantK {
				return fail(i, op, "GetKey(%d) = (%d,%v), want (%d,%v)", k, gk, gkok, wantK, wantKOK)
			}
			if gkok {
				if fv, fok := box.Get(gk); !fok || fv != k {
					return fail(i, op, "GetKey(%d)=%d but Get(%d) = (%d,%v): directions disagree", k, gk, gk, fv, fok)
				}
			}
		}
	}
	if classNewKeySameValue {
		info.Label("put:new-key/same-value")
	}
	if classSameKeyNewValue {
		info.Label("put:same-key/new-value")
	}
	if classBoth {
		info.Label("put:both-collide")
	}
	if classRepeat {
		info.Label("put:exact-repeat")
	}
	info.NonTrivial = classNewKeySameValue && classSameKeyNewValue
	return info, nil
}

// checkSoak is the oracle for the soak target: the two-map model, compared on
// the touched key/value and their neighbours after every step and completely
// (Keys, Values, every pair in both directions) every 16th step.
func checkSoak(c kvh.Case) (pbt.Info, error) {
	var info pbt.Info
	box := kvh.New(c)
	m := kvh.NewBidiModel()
	removals := 0
	for i, op := range c.Ops {
		var oldV int
		hadOld := false
		switch op.O {
		case "put":
			oldV, hadOld = m.Fwd[op.K]
			m.Put(op.K, op.V)
			box.Put(op.K, op.V)
		case "rem":
			oldV, hadOld = m.Fwd[op.K]
			if m.Remove(op.K) {
				removals++
			}
			box.Remove(op.K)
		case "clear":
			m.Clear()
			box.Clear()
		}
		fail := func(format string, a ...any) (pbt.Info, error) {
			return info, fmt.Errorf("%s soak step %d %s(%d,%d): %s", c.Kind, i, op.O, op.K, op.V, fmt.Sprintf(format, a...))
		}
		if box.Size() != len(m.Fwd) {
			return fail("Size()=%d, model has %d pairs", box.Size(), len(m.Fwd))
		}
		probesV := []int{op.V}
		if hadOld {
			probesV = append(probesV, oldV)
		}
		for _, k := range []int{op.K, op.K + 1} {
			wv, wok := m.Fwd[k]
			if v, ok := box.Get(k); ok != wok || v != wv {
				return fail("Get(%d) = (%d,%v), want (%d,%v)", k, v, ok, wv, wok)
			}
		}
		for _, v := range probesV {
			wk, wok := m.Inv[v]
			if k, ok := box.GetKey(v); ok != wok || k != wk {
				return fail("GetKey(%d) = (%d,%v), want (%d,%v) (a displaced value must not be found)", v, k, ok, wk, wok)
			}
		}
		if i%16 == 0 || i == len(c.Ops)-1 {
			keys, vals := box.Keys(), box.Values()
			if len(keys) != len(m.Fwd) || len(vals) != len(m.Inv) {
				return fail("len(Keys())=%d len(Values())=%d, model has %d pairs", len(keys), len(vals), len(m.Fwd))
			}
			for _, k := range keys {
				v, ok := box.Get(k)
				if !ok || m.Fwd[k] != v {
					return fail("listed key %d maps to (%d,%v), model %d", k, v, ok, m.Fwd[k])
				}
				if bk, ok := box.GetKey(v); !ok || bk != k {
					return fail("Get(%d)=%d but GetKey(%d)=(%d,%v)", k, v, v, bk, ok)
				}
			}
			for _, v := range vals {
				if _, ok := m.Inv[v]; !ok {
					return fail("Values() lists %d, which no key maps to", v)
				}
			}
		}
	}
	info.NonTrivial = len(c.Ops) >= 300 && removals > 0
	info.Label("soak")
	return info, nil
}

func gen(kind string) func(t *rapid.T) kvh.Case {
	return func(t *rapid.T) kvh.Case {
		c := kvh.Case{Kind: kind}
		if kind == kvh.TreeBidi {
			c.Cmp = dom.TotalCmps[rapid.IntRange(0, len(dom.TotalCmps)-1).Draw(t, "cmp")]
			c.VCmp = dom.TotalCmps[rapid.IntRange(0, len(dom.TotalCmps)-1).Draw(t, "vcmp")]
		}
		hi := []int{2, 5, 5, 12, 60}[rapid.IntRange(0, 4).Draw(t, "range")]
		n := rapid.IntRange(0, 40).Draw(t, "n")
		if hi == 60 {
			n = rapid.IntRange(30, 200).Draw(t, "nlong") // dozens of pairs: deeper trees, long histories
		}
		for i := 0; i < n; i++ {
			switch dom.Weighted(t, "op", 1, 60, 25, 2, 4) {
			case 0:
			case 1:
				c.Ops = append(c.Ops, kvh.Op{O: "put", K: rapid.IntRange(0, hi).Draw(t, "k"), V: rapid.IntRange(0, hi).Draw(t, "v")})
			case 2:
				c.Ops = append(c.Ops, kvh.Op{O: "rem", K: rapid.IntRange(0, hi).Draw(t, "k")})
			case 3:
				c.Ops = append(c.Ops, kvh.Op{O: "clear"})
			case 4:
				c.Ops = append(c.Ops, kvh.Op{O: "load", K: rapid.IntRange(0, hi).Draw(t, "k"), V: rapid.IntRange(0, hi).Draw(t, "v"),
					N: rapid.IntRange(0, 6).Draw(t, "entries"), S: rapid.IntRange(1, 4).Draw(t, "distinct-values")})
			}
		}
		return c
	}
}

// genSoak: one map instance driven for many hundreds of operations (counters,
// caches and rebuild thresholds that only long lives reach): a few keys are
// rebound to ever new values, interleaved with removals.
func genSoak(kind string) func(t *rapid.T) kvh.Case {
	return func(t *rapid.T) kvh.Case {
		c := kvh.Case{Kind: kind}
		if kind == kvh.TreeBidi {
			c.Cmp, c.VCmp = dom.Nat, dom.Rev
		}
		keys := rapid.IntRange(2, 9).Draw(t, "keys")
		n := rapid.IntRange(300, pbt.Size(900)).Draw(t, "n")
		pattern := rapid.SliceOfN(rapid.IntRange(0, 9), 4, 12).Draw(t, "pattern")
		for i := 0; i < n; i++ {
			switch pattern[i%len(pattern)] {
			case 0:
				c.Ops = append(c.Ops, kvh.Op{O: "rem", K: i % keys})
			case 1: // an old value again: value collision
				c.Ops = append(c.Ops, kvh.Op{O: "put", K: (i * 7) % keys, V: 10 + (i*3)%keys})
			default: // rebind a key to a fresh value
				c.Ops = append(c.Ops, kvh.Op{O: "put", K: i % keys, V: 100 + i})
			}
		}
		return c
	}
}

// genTide: one map grows to dozens or hundreds of pairs, shrinks to a small rest
// (by Clear, or by removals that stop at a drawn remainder), and is then hit by Puts
// that collide on the key AND on the value at once, by fresh Puts and by removals —
// repeated for up to three tides.  High-water marks, rebuild thresholds and
// whatever else a long life accumulates sit exactly at these turns.  The generator
// keeps its own copy of the model only to aim the collisions at live pairs.
func genTide(kind string) func(t *rapid.T) kvh.Case {
	return func(t *rapid.T) kvh.Case {
		c := kvh.Case{Kind: kind}
		if kind == kvh.TreeBidi {
			c.Cmp, c.VCmp = dom.Nat, dom.Rev
		}
		g := kvh.NewBidiModel()
		put := func(k, v int) { c.Ops = append(c.Ops, kvh.Op{O: "put", K: k, V: v}); g.Put(k, v) }
		rem := func(k int) { c.Ops = append(c.Ops, kvh.Op{O: "rem", K: k}); g.Remove(k) }
		liveKeys := func() []int {
			ks := make([]int, 0, len(g.Fwd))
			for k := range g.Fwd {
				ks = append(ks, k)
			}
			slices.Sort(ks)
			return ks
		}
		tides := rapid.IntRange(1, 3).Draw(t, "tides")
		next := 0
		for tide := 0; tide < tides; tide++ {
			n := rapid.IntRange(20, pbt.Size(280)).Draw(t, "high")
			for i := 0; i < n; i++ {
				put(next, 100000+next)
				next++
			}
			if rapid.IntRange(0, 2).Draw(t, "how") == 1 {
				c.Ops = append(c.Ops, kvh.Op{O: "clear"})
				g.Clear()
				for i, r := 0, rapid.IntRange(0, 6).Draw(t, "refill"); i < r; i++ {
					put(next, 100000+next)
					next++
				}
			} else {
				rest := rapid.IntRange(0, max(1, len(g.Fwd)/3)).Draw(t, "rest")
				ks := liveKeys()
				step := rapid.SampledFrom([]int{1, 1, 3, 7}).Draw(t, "stride")
				for off := 0; off < step && len(g.Fwd) > rest; off++ {
					for j := off; j < len(ks) && len(g.Fwd) > rest; j += step {
						rem(ks[j])
					}
				}
			}
			m := rapid.IntRange(4, 40).Draw(t, "turn")
			for i := 0; i < m; i++ {
				ks := liveKeys()
				switch x := rapid.IntRange(0, 9).Draw(t, "op"); {
				case x <= 4 && len(ks) >= 2: // key held AND value held by another key
					a := ks[rapid.IntRange(0, len(ks)-1).Draw(t, "a")]
					b := ks[rapid.IntRange(0, len(ks)-1).Draw(t, "b")]
					put(a, g.Fwd[b])
				case x <= 6:
					put(next, 100000+next)
					next++
				case x == 7 && len(ks) >= 1: // new key takes a held value
					put(next, g.Fwd[ks[rapid.IntRange(0, len(ks)-1).Draw(t, "b")]])
					next++
				case len(ks) >= 1:
					rem(ks[rapid.IntRange(0, len(ks)-1).Draw(t, "r")])
				}
			}
		}
		return c
	}
}

func TestTides(t *testing.T) {
	for _, kind := range []string{kvh.HashBidi, kvh.TreeBidi} {
		pbt.Run(t, pbt.Target[kvh.Case]{Name: kind + "/tides", Checks: 150, Gen: genTide(kind), Check: checkTide})
	}
}

// checkTide is checkSoak with its own non-trivial rule (a shrink below a third of
// the high-water mark followed by a double collision).
func checkTide(c kvh.Case) (pbt.Info, error) {
	info, err := checkSoak(c)
	info.Labels = []string{"tide"}
	info.NonTrivial = len(c.Ops) >= 40
	return info, err
}

func TestGenerated(t *testing.T) {
	for _, kind := range []string{kvh.HashBidi, kvh.TreeBidi} {
		pbt.Run(t, pbt.Target[kvh.Case]{Name: kind, Checks: 40000, Gen: gen(kind), Check: check})
	}
	pbt.Run(t, pbt.Target[kvh.Case]{Name: "treebidimap/many-to-one-comparators", Checks: 20000, Gen: bidicoarse.Gen, Check: bidicoarse.Check})
	for _, kind := range []string{kvh.HashBidi, kvh.TreeBidi} {
		pbt.Run(t, pbt.Target[kvh.Case]{Name: kind + "/soak", Checks: 40, Gen: genSoak(kind), Check: checkSoak})
	}
}

// TestExhaustive: every sequence of a fixed length over Put(k,v), Remove(k),
// Clear with keys and values in {0,1,2} (13 operations; prefix-closed).
func TestExhaustive(t *testing.T) {
	L := 5
	if pbt.Thorough() {
		L = 6
	}
	var alphabet []kvh.Op
	for k := 0; k < 3; k++ {
		for v := 0; v < 3; v++ {
			alphabet = append(alphabet, kvh.Op{O: "put", K: k, V: v})
		}
	}
	for k := 0; k < 3; k++ {
		alphabet = append(alphabet, kvh.Op{O: "rem", K: k})
	}
	alphabet = append(alphabet, kvh.Op{O: "clear"})
	note := fmt.Sprintf("every sequence of length %d over the 13 operations Put(k,v)/Remove(k)/Clear with k,v in {0,1,2}, both kinds", L)
	pbt.Enumerate(t, pbt.Target[kvh.Case]{Name: "exhaustive", Check: check}, note, func(yield func(kvh.Case) bool) {
		total := 1
		for i := 0; i < L; i++ {
			total *= len(alphabet)
		}
		idx := 0
		for _, kind := range []string{kvh.HashBidi, kvh.TreeBidi} {
			for code := 0; code < total; code++ {
				idx++
				if !pbt.Mine(idx) {
					continue
				}
				c := kvh.Case{Kind: kind, Ops: make([]kvh.Op, L)}
				if kind == kvh.TreeBidi {
					c.Cmp, c.VCmp = dom.Nat, dom.Nat
				}
				x := code
				for i := 0; i < L; i++ {
					c.Ops[i] = alphabet[x%len(alphabet)]
					x /= len(alphabet)
				}
				if !yield(c) {
					return
				}
			}
		}
	})
}
