package c12

import (
	"testing"

	"verif/harness/internal/keytypes"
	"verif/harness/internal/pbt"
)

// Key types other than int and string (uint64 up to 2^64-1, int8, named integers
// and strings with a String method, text-marshalling keys): see internal/keytypes.
func TestKeyTypes(t *testing.T) {
	pbt.Run(t, pbt.Target[keytypes.Case]{Name: "keytypes/json", Checks: 8000, Check: keytypes.Check, Gen: keytypes.Gen(nil, true)})
}
