#!/usr/bin/env python3
"""Regenerates /verif/MANIFEST.json from the table below (kept next to the driver's props table)."""
import json, os, sys
ROOT = os.path.dirname(os.path.dirname(os.path.abspath(__file__)))

# id -> (technique, level text, level note, design ref)
CHECKS = {
 "C05": ("model-based PBT (rapid) + bounded-exhaustive op sequences vs slice model",
         "Exploration: every generated or enumerated history of Push/Pop/Peek/Enqueue/Dequeue/Clear is compared step by step with a slice model (return values, Size, Empty, Values, Peek, Full, final drain); all sequences of a fixed length over {add,take,clear} are enumerated for ring capacities 1..4, and every (capacity,start,size) ring state up to capacity 9 is visited. Held-on-everything-generated, not a proof.",
         "Trusts the slice model and rapid; capacities beyond 17 and element types other than int are not generated.",
         "DESIGN.md §4 C05"),
}
NOT_YET = "check under construction in this session (not claimed yet)"

props = [json.loads(l) for l in open(os.path.join(ROOT, "properties.jsonl"))]
checks, na = [], []
for p in props:
    pid = p["id"]
    if pid in CHECKS:
        tech, text, note, ref = CHECKS[pid]
        checks.append({
            "property_id": pid,
            "quick_cmd": f"./check {pid} quick",
            "thorough_cmd": f"./check {pid} thorough",
            "evidence_file": f"/verif/evidence/{pid}.json",
            "replay_cmd_template": f"./check {pid} --replay {{path}}",
            "engine": "rapid-harness",
            "level_claimed": {"category": "exploration", "text": text, "design_ref": ref},
            "level_note": note,
            "technique": tech,
        })
    else:
        na.append({"property_id": pid, "reason": NOT_YET})
m = {
 "version": 1,
 "setup_cmd": "./check setup",
 "hooks": {
  "guard": "verif",
  "enable": "no hooks are needed: every property is observed through the exported API, reflection and the race detector; the tag `verif` is reserved and unused",
  "baseline_off_cmd": "cd /repo && go test -vet=off -count=1 ./...",
  "source_commits": [],
  "add_only": True,
 },
 "engines": [
  {"name": "rapid-harness", "path": "/verif/harness", "serves_properties": sorted(CHECKS),
   "kind_free_text": "Go test packages (one per property) using pgregory.net/rapid v1.3.0 generators, bounded-exhaustive enumerators and native go fuzzing against explicit reference models; driven by /verif/driver via /verif/check"},
 ],
 "checks": checks,
 "not_applicable": na,
 "notes": "All checks rebuild the harness against /repo's working tree (go.mod replace). Exit 0 held / 1 VIOLATION / 2 inconclusive. Genuine defects found are listed in /verif/KNOWN_FINDINGS.txt.",
}
json.dump(m, open(os.path.join(ROOT, "MANIFEST.json"), "w"), indent=1)
print("wrote MANIFEST.json with", len(checks), "checks,", len(na), "not claimed")
