// C18 — read-only operations are pure and safe for concurrent readers.
//
// (a) purity, sequential: every read-only operation leaves the deep
// fingerprint of the container unchanged.  (b) concurrent readers under the
// race detector (this package is built with -race): goroutines released from
// a barrier issue read-only calls on one container; no race report may
// appear, every result equals the sequential answer, the fingerprint stays.
package c18

import (
	"cmp"
	"fmt"
	"reflect"
	"slices"
	"sync"
	"testing"

	"github.com/emirpasic/gods/v2/containers"
	"pgregory.net/rapid"

	"verif/harness/internal/fp"
	"verif/harness/internal/pbt"
	"verif/harness/internal/refl"
)

func TestMain(m *testing.M) { pbt.Main(m, "C18") }

type Case struct {
	Cfg     refl.Cfg      `json:"cfg"`
	Build   []refl.Step   `json:"build"`   // mutators building the state
	Readers [][]refl.Step `json:"readers"` // one list of read-only calls per goroutine ((a): a single list)
	Rounds  int           `json:"rounds,omitempty"`
}

var mutators = []string{"Add", "Append", "Prepend", "Insert", "Remove", "Set", "Swap", "Put", "Push", "Pop", "Enqueue", "Dequeue"}

// pseudo-methods for the package-level read-only functions
const (
	sortedValues     = "containers.GetSortedValues"
	sortedValuesFunc = "containers.GetSortedValuesFunc"
)

func readOnlyMethods(c refl.Cfg) []string {
	var out []string
	for _, m := range refl.Methods(c) {
		if refl.ReadOnly[m] {
			out = append(out, m)
		}
	}
	return append(out, sortedValues, sortedValuesFunc)
}

func mutatorMethods(c refl.Cfg) []string {
	var out []string
	for _, m := range refl.Methods(c) {
		if slices.Contains(mutators, m) {
			out = append(out, m)
		}
	}
	return out
}

// structural reports whether the call walks the structure (anything but Size/Empty/Full).
func structural(m string) bool { return m != "Size" && m != "Empty" && m != "Full" }

func do(r *refl.Runner, s refl.Step) refl.Result {
	switch s.M {
	case sortedValues:
		vs := containers.GetSortedValues[refl.E](r.Obj.(containers.Container[refl.E]))
		return refl.Result{Called: true, Vals: []any{fmt.Sprint(vs)}}
	case sortedValuesFunc:
		vs := containers.GetSortedValuesFunc[refl.E](r.Obj.(containers.Container[refl.E]), func(a, b refl.E) int { return cmp.Compare(b, a) })
		return refl.Result{Called: true, Vals: []any{fmt.Sprint(vs)}}
	}
	return r.Do(s)
}

func build(c Case) *refl.Runner {
	r := refl.NewRunner(c.Cfg)
	for _, s := range c.Build {
		r.Do(s)
	}
	return r
}

// ---------------------------------------------------------------------------
// (a) purity

func checkPure(c Case) (pbt.Info, error) {
	var info pbt.Info
	r := build(c)
	n := r.Size()
	calls := 0
	for _, list := range c.Readers {
		for i, s := range list {
			f0 := fp.Of(r.Obj)
			res := do(r, s)
			if !res.Called {
				continue
			}
			pbt.AddToSet("read-only operations exercised (kind|op)", c.Cfg.Kind+"|"+s.M)
			if g := fp.Of(r.Obj); g != f0 {
				return info, fmt.Errorf("%s (n=%d): read-only call %d %s modified the container: %s", c.Cfg.Kind, n, i, s.M, fp.Diff(f0, g))
			}
			// asking again gives the same answer
			if again := do(r, s); !reflect.DeepEqual(again.Vals, res.Vals) || !reflect.DeepEqual(again.ItLog, res.ItLog) {
				return info, fmt.Errorf("%s (n=%d): read-only call %d %s answered %v %v, then %v %v on the unchanged container", c.Cfg.Kind, n, i, s.M, res.Vals, res.ItLog, again.Vals, again.ItLog)
			}
			if structural(s.M) {
				calls++
			}
		}
	}
	info.NonTrivial = n > 0 && calls > 0
	if n == 0 {
		info.Label("empty-state")
	}
	return info, nil
}

func genState(t *rapid.T, kind string) Case {
	c := Case{Cfg: refl.GenCfg(t, kind)}
	chunks := 2
	if rapid.IntRange(0, 7).Draw(t, "big-build") == 0 {
		chunks = 9 // dozens to hundreds of elements
	}
	c.Build = refl.GenStepsFor(t, c.Cfg.Kind, mutatorMethods(c.Cfg), chunks, 12)
	return c
}

func genPure(kind string) func(t *rapid.T) Case {
	return func(t *rapid.T) Case {
		c := genState(t, kind)
		c.Readers = [][]refl.Step{refl.GenStepsFor(t, c.Cfg.Kind, readOnlyMethods(c.Cfg), 2, 8)}
		return c
	}
}

func TestPurity(t *testing.T) {
	for _, kind := range refl.Kinds {
		pbt.Run(t, pbt.Target[Case]{Name: "pure/" + kind, Checks: 200, Gen: genPure(kind), Check: checkPure})
	}
}

// ---------------------------------------------------------------------------
// (b) concurrent readers

func checkConcurrent(c Case) (pbt.Info, error) {
	var info pbt.Info
	r := build(c)
	n := r.Size()
	// sequential answers first
	want := make([][]refl.Result, len(c.Readers))
	for g, list := range c.Readers {
		for _, s := range list {
			want[g] = append(want[g], do(r, s))
		}
	}
	f0 := fp.Of(r.Obj)
	rounds := max(1, c.Rounds)
	racesBefore := raceErrors()
	var firstErr error
	var mu sync.Mutex
	for round := 0; round < rounds; round++ {
		var wg sync.WaitGroup
		start := make(chan struct{})
		for g, list := range c.Readers {
			wg.Add(1)
			go func(g int, list []refl.Step) {
				defer wg.Done()
				defer func() {
					if p := recover(); p != nil {
						mu.Lock()
						if firstErr == nil {
							firstErr = fmt.Errorf("%s (n=%d): reader goroutine %d panicked: %v", c.Cfg.Kind, n, g, p)
						}
						mu.Unlock()
					}
				}()
				<-start
				for i, s := range list {
					got := do(r, s)
					if !reflect.DeepEqual(got.Vals, want[g][i].Vals) || !reflect.DeepEqual(got.ItLog, want[g][i].ItLog) {
						mu.Lock()
						if firstErr == nil {
							firstErr = fmt.Errorf("%s (n=%d): concurrent %s (goroutine %d, call %d) returned %v %v, sequentially it returns %v %v", c.Cfg.Kind, n, s.M, g, i, got.Vals, got.ItLog, want[g][i].Vals, want[g][i].ItLog)
						}
						mu.Unlock()
					}
				}
			}(g, list)
		}
		close(start)
		wg.Wait()
	}
	if firstErr != nil {
		return info, firstErr
	}
	if d := raceErrors() - racesBefore; d > 0 {
		var ms []string
		for _, list := range c.Readers {
			for _, s := range list {
				if !slices.Contains(ms, s.M) {
					ms = append(ms, s.M)
				}
			}
		}
		slices.Sort(ms)
		return info, fmt.Errorf("%s (n=%d): the race detector reported %d data race(s) while %d goroutines issued only read-only calls %v (report in the shard log)", c.Cfg.Kind, n, d, len(c.Readers), ms)
	}
	if g := fp.Of(r.Obj); g != f0 {
		return info, fmt.Errorf("%s (n=%d): the container changed during concurrent read-only calls: %s", c.Cfg.Kind, n, fp.Diff(f0, g))
	}
	busy := 0
	for _, list := range c.Readers {
		walks := 0
		for _, s := range list {
			if structural(s.M) {
				walks++
			}
		}
		if len(list) >= 2 && walks >= 1 {
			busy++
		}
	}
	info.NonTrivial = n > 0 && busy >= 2
	return info, nil
}

func genConcurrent(kind string) func(t *rapid.T) Case {
	return func(t *rapid.T) Case {
		c := genState(t, kind)
		g := rapid.IntRange(2, 8).Draw(t, "goroutines")
		ro := readOnlyMethods(c.Cfg)
		for i := 0; i < g; i++ {
			c.Readers = append(c.Readers, refl.GenStepsFor(t, c.Cfg.Kind, ro, 2, 6))
		}
		c.Rounds = rapid.IntRange(1, 3).Draw(t, "rounds")
		return c
	}
}

func TestConcurrentReaders(t *testing.T) {
	if !raceEnabled {
		t.Skip("not built with -race")
	}
	for _, kind := range refl.Kinds {
		pbt.Run(t, pbt.Target[Case]{Name: "concurrent/" + kind, Checks: 70, Gen: genConcurrent(kind), Check: checkConcurrent})
	}
}
