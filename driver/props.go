package main

import "time"

func q(shards int, scale float64) tierCfg {
	return tierCfg{Shards: shards, Scale: scale, Timeout: 10 * time.Minute}
}
func th(shards int, scale float64) tierCfg {
	return tierCfg{Shards: shards, Scale: scale, Timeout: 60 * time.Minute}
}

var commonAssume = []string{
	"the Go toolchain, encoding/json and pgregory.net/rapid behave as documented",
	"the reference models in /verif/harness are correct (they are a few lines each and were calibrated against the unchanged tree)",
	"element and key types are int / string / small comparable structs; other instantiations share the same generic code",
}

var props = []propCfg{
	{ID: "C08", Pkg: "c08", Quick: q(4, 1), Thorough: th(16, 12),
		Rule: "cases = (one of the 18 iterator-bearing kinds, configuration [comparator, ring capacity, B-tree order], a state built by inserts followed by removals / pops-and-repushes [ring wrapped, heap after pops, trees after deletions], a script of Next/Prev/Begin/End/First/Last/NextTo(p)/PrevTo(p) calls with predicates on (index|key, value) from a family incl. constant true/false) plus every call sequence of a fixed length for n in {0,1,2,3} on every type; oracle = integer cursor over the container's own Values() / Keys()+Get sequence: the return value of every call, and Index()/Key()/Value() after every successful move; nothing is read at the sentinels. Non-trivial: n >= 1, >= 3 moves and a direction reversal at or next to a sentinel (forward-only iterators: a Begin/First restart issued at or next to the end). Distinct = FNV-64 of the canonical JSON of the case.",
		Assume: append([]string{"the container is not modified while an iterator is in use (README: unsafe); values are read only after a successful move"}, commonAssume...)},
	{ID: "C09", Pkg: "c09", Quick: q(4, 1), Thorough: th(16, 15),
		Rule: "cases = (LinkedHashMap | LinkedHashSet, int | string keys [string domain includes escaped characters and a key contained in another], constructor values, script of Put/Add (variadic), Remove, Clear over 6..8-key domains) plus every sequence of a fixed length over put/remove of 3 keys and clear; oracle = ordered-slice model (position of first insertion since last absent): Keys/Values, forward and backward iterator, Each callback order and indices, and the key order of ToJSON (read with a token decoder) equal the model after every step. Non-trivial: >= 3 live keys at some point AND a re-put of a live key AND a remove-then-reinsert. Distinct = FNV-64 of the canonical JSON of the case.",
		Assume: commonAssume},
	{ID: "C10", Pkg: "c10", Quick: q(4, 1), Thorough: th(16, 15),
		Rule: "cases = (kind, key and value comparators for TreeBidiMap, script of Put/Remove/Clear with keys and values from one small range so that every collision class is common) plus every sequence of a fixed length over the 13 operations with keys, values in {0,1,2}; oracle = two-map model with the stated eviction order; after every step Get(k) and GetKey(v) for every k, v of the domain (+-1) equal the model and are mutually inverse, Keys/Values are the model's sets, Size == len(Keys) == len(Values) == pairs, no displaced pair is returned. Non-trivial: the history contains a new-key/same-value Put AND a same-key/new-value Put. Distinct = FNV-64 of the canonical JSON of the case.",
		Assume: commonAssume},
	{ID: "C01", Pkg: "c01", Quick: q(4, 1), Thorough: th(16, 12),
		Rule: "cases = (kind, comparator, B-tree order, history of put/rem/get/clear and ascending/descending/strided runs with concrete keys and values), drawn by rapid per kind (looped) plus every insertion-permutation x removal-permutation of k distinct keys; oracle = comparator-aware map model (two-map model with eviction for the bidirectional kinds) compared after every step: Get of touched/present/absent/just-removed keys, Size, Empty, Keys/Values (position-aligned for ordered and linked kinds, multisets for hash kinds). Non-trivial: the history removes a present key while >= 3 keys are live AND overwrites a live key (enumerated permutation pairs: removal with >= 3 live keys). Distinct = FNV-64 of the canonical JSON of the case.",
		Assume: commonAssume},
	{ID: "C02", Pkg: "c02", Quick: q(4, 1), Thorough: th(16, 12),
		Rule: "cases = (kind, key comparator [natural, reversed, scrambled bijection, k>>1, k mod 5], value comparator (TreeBidiMap), B-tree order, history of put/rem/clear/runs over sparse keys (multiples of 3) interleaved with probe keys that fall between neighbours, below the minimum and above the maximum); oracle = comparator-sorted model: Keys/Values/forward and backward iteration strictly ascending and equal to the model (modulo comparator-equality), least/greatest element accessors, Floor/Ceiling against a scan of the model with exact found-flag. Non-trivial: >= 3 keys live when a probe that is absent (between neighbours or out of range) is navigated, or the comparator is not the natural one, or (kinds without Floor/Ceiling) a mutation of a >= 3-key container whose full order is re-checked. Distinct = FNV-64 of the canonical JSON of the case.",
		Assume: commonAssume},
	{ID: "C06", Pkg: "c06", Quick: q(4, 1), Thorough: th(16, 15),
		Rule: "cases = (BinaryHeap | PriorityQueue, min | max comparator on the priority of (P,ID) items so that ties are distinguishable, script of Push(1 item), Push(k items, k in {0,2..8,17}), Pop, Peek, Clear, FromJSON(array of items in arbitrary order)) plus every permutation of a 6-element multiset with ties pushed singly / in bulk / loaded from JSON / interleaved with pops; oracle = exact multiset model: Pop/Peek return a contained element that no contained element precedes, Pop removes exactly that copy, Values() and iteration are permutations of the contents starting with the Peek element, final drain non-decreasing and multiset-exact. Non-trivial: a Pop after a Push after a Pop, or a bulk push onto a non-empty heap, or FromJSON of a non-heap-ordered array followed by a Pop. Distinct = FNV-64 of the canonical JSON of the case.",
		Assume: append([]string{"heap layout, Peek/Pop identity among ties and pop order among ties are not asserted"}, commonAssume...)},
	{ID: "C07", Pkg: "c07", Quick: q(4, 1), Thorough: th(16, 10),
		Rule: "cases = (kind, comparator, B-tree order m in {3..9,16,32,33,64}, workload of sorted / reverse-sorted / zig-zag / pseudo-random runs, delete-min-insert-max churn, random removals, drains, clears) plus small single-op histories plus every insertion-permutation x removal-permutation of k keys; oracle (a) shape from exported fields after every step for n<=64 and every 16th step above (AVL height balance, B-tree node bounds / leaf depth / Height(), red-black longest<=2*shortest path, node count == Size(), parent links), (b) a counting comparator around every single Put/Remove/Get against the bound stated in the property (4x per comparator for TreeBidiMap). Non-trivial: the history reaches n >= 32 keys and removes at least n/4 of them, or is a complete permutation pair. Distinct = FNV-64 of the canonical JSON of the case.",
		Assume: append([]string{"colour rules of the red-black tree are deliberately not asserted (the property is stated in path lengths and comparator calls)"}, commonAssume...)},
	{ID: "C03", Pkg: "c03", Quick: q(4, 1), Thorough: th(16, 15),
		Rule: "cases = (initial values for New, script of Add/Append/Prepend/Insert/Remove/Set/Swap/Sort/Clear/Contains with wild indices [MinInt, negatives, 0, middle, size-1, size, beyond, MaxInt], 0..4-value variadics with duplicates, bulk adds and removal runs crossing the array list's grow/shrink thresholds), each case run on ArrayList, SinglyLinkedList and DoublyLinkedList at once; plus every pair of index operations at every index -1..n+1 for initial lengths 0..4; oracle = slice model after every step (Values, Size, Empty, Get(-2..size+1), IndexOf of every domain value, Contains), Sort exact for total orders and permutation+non-decreasing for the coarse order. Non-trivial: at least one Insert/Remove/Set/Swap that takes effect on a list of >= 2 elements. Distinct = FNV-64 of the canonical JSON of the case.",
		Assume: append([]string{"sort stability is not assumed; ArrayList has no Append/Prepend, the script uses Add / Insert(0,...) there"}, commonAssume...)},
	{ID: "C04", Pkg: "c04", Quick: q(4, 1), Thorough: th(16, 15),
		Rule: "cases = (constructor values, script of variadic Add/Remove (0..6 arguments, duplicates inside one call, members and non-members mixed), Clear and Contains probes over a 9-value domain), each case run at once on HashSet, TreeSet (natural, reversed, and the many-to-one order k>>1 with class semantics) and LinkedHashSet; oracle = Go-map set model after every step: Contains(x) for every x of the domain (+-1), Contains(xs...) incl. the empty list, Size, Empty, Values duplicate-free and equal to the model. Non-trivial: (a duplicate inside one Add call OR a re-add after removal) AND a removal of a member. Distinct = FNV-64 of the canonical JSON of the case.",
		Assume: commonAssume},
	{ID: "C05", Pkg: "c05", Quick: q(4, 1), Thorough: th(16, 20),
		Rule: "cases = (kind, capacity, script of add/take/peek/clear with concrete values), drawn by rapid per kind (looped, equal budgets) plus every script of a fixed length over {add,take,clear} for ring capacities 1..4 and the four unbounded kinds; oracle = slice model compared after every step (return values, Size, Empty, Values, Peek, Full) and a final drain. Non-trivial: ring — at least one eviction AND one successful dequeue AND more enqueues than the capacity (wrapped); stacks/queues — a take after an add after a take. Distinct = FNV-64 of the canonical JSON of the case, merged exactly across shards.",
		Assume: commonAssume},
}
