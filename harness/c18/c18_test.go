// C18 — read-only operations are pure and safe for concurrent readers.
//
// (a) purity, sequential: every read-only operation leaves the deep
// fingerprint of the container unchanged.  (b) concurrent readers under the
// race detector (this package is built with -race): goroutines released from
// a barrier issue read-only calls on one container; no race report may
// appear, every result equals the sequential answer, the fingerprint stays.
package c18

import (
	"cmp"
	"fmt"
	"reflect"
	"slices"
	"sync"
	"testing"

	"github.com/emirpasic/gods/v2/containers"
	"pgregory.net/rapid"

	"verif/harness/internal/fp"
	"verif/harness/internal/pbt"
	"verif/harness/internal/refl"
)

func TestMain(m *testing.M) { pbt.Main(m, "C18") }

// TestAADeepStructuresFirst is the first test of the process (tests run in
// source order): large containers — B-trees of 5+ levels, deep binary trees, long
// lists, heaps of 7+ levels — whose every reader starts with the SAME expensive
// whole-structure reads (String, ToJSON, Values, Keys, a full iterator walk) at
// the same moment, while every process-wide lazily initialised table is cold.
func TestAADeepStructuresFirst(t *testing.T) {
	if !raceEnabled {
		t.Skip("not built with -race")
	}
	for _, kind := range []string{"btree", "redblacktree", "avltree", "treemap", "treeset", "treebidimap", "arraylist", "doublylinkedlist", "linkedhashmap", "binaryheap", "circularbuffer"} {
		pbt.Run(t, pbt.Target[Case]{Name: "concurrent-deep/" + kind, Checks: 6, Gen: genDeep(kind), Check: checkConcurrent})
	}
}

func genDeep(kind string) func(t *rapid.T) Case {
	return func(t *rapid.T) Case {
		c := Case{Cfg: refl.GenCfg(t, kind)}
		if kind == "btree" {
			c.Cfg.Order = 3 // the deepest tree for the number of keys (height >= 5 from 31 keys on)
			_ = rapid.IntRange(0, 2).Draw(t, "order")
		}
		if kind == "circularbuffer" {
			c.Cfg.Cap = []int{64, 100}[rapid.IntRange(0, 1).Draw(t, "cap")]
		}
		adder := map[string]string{"btree": "Put", "redblacktree": "Put", "avltree": "Put", "treemap": "Put", "treebidimap": "Put", "linkedhashmap": "Put",
			"treeset": "Add", "arraylist": "Add", "doublylinkedlist": "Add", "binaryheap": "Push", "circularbuffer": "Enqueue"}[kind]
		n := rapid.IntRange(70, 400).Draw(t, "n")
		if kind == "binaryheap" {
			n = rapid.IntRange(70, 140).Draw(t, "nheap")
		}
		c.Build = []refl.Step{{M: adder, R: []int{rapid.IntRange(0, 1<<20).Draw(t, "r0"), rapid.IntRange(0, 1<<20).Draw(t, "r1"), 3}, N: n, V: 1}}
		whole := []string{"String", "ToJSON", "Values", "Keys", "Iterator", "MarshalJSON", "Height", "Size"}
		var list []refl.Step
		for _, m := range whole {
			for _, have := range refl.Methods(c.Cfg) {
				if have == m {
					st := refl.Step{M: m, R: []int{1}}
					if m == "Iterator" {
						for i := 0; i < 40; i++ {
							st.It = append(st.It, "Next", "Value")
						}
						st.It = append(st.It, "End", "Prev", "Value", "Last", "First")
					}
					list = append(list, st)
				}
			}
		}
		g := rapid.IntRange(3, 8).Draw(t, "goroutines")
		for i := 0; i < g; i++ {
			c.Readers = append(c.Readers, list) // every goroutine does the same reads, starting together
		}
		c.Rounds = 1
		return c
	}
}

type Case struct {
	Cfg     refl.Cfg      `json:"cfg"`
	Build   []refl.Step   `json:"build"`   // mutators building the state
	Readers [][]refl.Step `json:"readers"` // one list of read-only calls per goroutine ((a): a single list)
	Rounds  int           `json:"rounds,omitempty"`
}

var mutators = []string{"Add", "Append", "Prepend", "Insert", "Remove", "Set", "Swap", "Put", "Push", "Pop", "Enqueue", "Dequeue"}

// pseudo-methods for the package-level read-only functions
const (
	sortedValues     = "containers.GetSortedValues"
	sortedValuesFunc = "containers.GetSortedValuesFunc"
)

func readOnlyMethods(c refl.Cfg) []string {
	var out []string
	for _, m := range refl.Methods(c) {
		if refl.ReadOnly[m] {
			out = append(out, m)
		}
	}
	if c.Elem != "" {
		return out // GetSortedValues needs an ordered element type
	}
	return append(out, sortedValues, sortedValuesFunc)
}

func mutatorMethods(c refl.Cfg) []string {
	var out []string
	for _, m := range refl.Methods(c) {
		if slices.Contains(mutators, m) {
			out = append(out, m)
		}
	}
	return out
}

// structural reports whether the call walks the structure (anything but Size/Empty/Full).
func structural(m string) bool { return m != "Size" && m != "Empty" && m != "Full" }

func do(r *refl.Runner, s refl.Step) refl.Result {
	switch s.M {
	case sortedValues:
		vs := containers.GetSortedValues[refl.E](r.Obj.(containers.Container[refl.E]))
		return refl.Result{Called: true, Vals: []any{fmt.Sprint(vs)}}
	case sortedValuesFunc:
		vs := containers.GetSortedValuesFunc[refl.E](r.Obj.(containers.Container[refl.E]), func(a, b refl.E) int { return cmp.Compare(b, a) })
		return refl.Result{Called: true, Vals: []any{fmt.Sprint(vs)}}
	}
	return r.Do(s)
}

func build(c Case) *refl.Runner {
	r := refl.NewRunner(c.Cfg)
	for _, s := range c.Build {
		r.Do(s)
	}
	return r
}

// ---------------------------------------------------------------------------
// (a) purity

func checkPure(c Case) (pbt.Info, error) {
	var info pbt.Info
	r := build(c)
	n := r.Size()
	calls := 0
	for _, list := range c.Readers {
		for i, s := range list {
			f0 := fp.Of(r.Obj)
			res := do(r, s)
			if !res.Called {
				continue
			}
			pbt.AddToSet("read-only operations exercised (kind|op)", c.Cfg.Kind+"|"+s.M)
			if g := fp.Of(r.Obj); g != f0 {
				return info, fmt.Errorf("%s (n=%d): read-only call %d %s modified the container: %s", c.Cfg.Kind, n, i, s.M, fp.Diff(f0, g))
			}
			// asking again gives the same answer
			if again := do(r, s); !reflect.DeepEqual(again.Vals, res.Vals) || !reflect.DeepEqual(again.ItLog, res.ItLog) {
				return info, fmt.Errorf("%s (n=%d): read-only call %d %s answered %v %v, then %v %v on the unchanged container", c.Cfg.Kind, n, i, s.M, res.Vals, res.ItLog, again.Vals, again.ItLog)
			}
			if structural(s.M) {
				calls++
			}
		}
	}
	info.NonTrivial = n > 0 && calls > 0
	if n == 0 {
		info.Label("empty-state")
	}
	return info, nil
}

// elemFamily is the element family of the targets being generated ("" = int; "any"
// = an interface element type, for code that inspects the element type at run time).
var elemFamily = ""

func genState(t *rapid.T, kind string) Case {
	c := Case{Cfg: refl.GenCfg(t, kind)}
	if elemFamily != "" {
		c.Cfg = refl.GenCfgElem(t, kind, elemFamily)
	}
	chunks := 2
	if rapid.IntRange(0, 7).Draw(t, "big-build") == 0 {
		chunks = 9 // dozens to hundreds of elements
	}
	c.Build = refl.GenStepsFor(t, c.Cfg.Kind, mutatorMethods(c.Cfg), chunks, 12)
	return c
}

func genPure(kind string) func(t *rapid.T) Case {
	return func(t *rapid.T) Case {
		c := genState(t, kind)
		c.Readers = [][]refl.Step{refl.GenStepsFor(t, c.Cfg.Kind, readOnlyMethods(c.Cfg), 2, 8)}
		return c
	}
}

// ---------------------------------------------------------------------------
// (b) concurrent readers

func checkConcurrent(c Case) (pbt.Info, error) {
	var info pbt.Info
	r := build(c)
	n := r.Size()
	// The concurrent phase runs FIRST, on whatever caches and lazily initialised
	// state are still cold; the sequential answers are computed afterwards on the
	// same (unmodified) container and compared with what the goroutines saw.
	f0 := fp.Of(r.Obj)
	rounds := max(1, c.Rounds)
	racesBefore := raceErrors()
	var firstErr error
	var mu sync.Mutex
	got := make([][][]refl.Result, rounds)
	for round := 0; round < rounds; round++ {
		got[round] = make([][]refl.Result, len(c.Readers))
		var wg sync.WaitGroup
		start := make(chan struct{})
		for g, list := range c.Readers {
			wg.Add(1)
			go func(g int, list []refl.Step) {
				defer wg.Done()
				defer func() {
					if p := recover(); p != nil {
						mu.Lock()
						if firstErr == nil {
							firstErr = fmt.Errorf("%s (n=%d): reader goroutine %d panicked: %v", c.Cfg.Kind, n, g, p)
						}
						mu.Unlock()
					}
				}()
				<-start
				res := make([]refl.Result, 0, len(list))
				for _, s := range list {
					res = append(res, do(r, s))
				}
				got[round][g] = res
			}(g, list)
		}
		close(start)
		wg.Wait()
	}
	if firstErr == nil {
		for g, list := range c.Readers {
			for i, s := range list {
				want := do(r, s)
				for round := 0; round < rounds; round++ {
					if i >= len(got[round][g]) {
						continue
					}
					gr := got[round][g][i]
					if !reflect.DeepEqual(gr.Vals, want.Vals) || !reflect.DeepEqual(gr.ItLog, want.ItLog) {
						firstErr = fmt.Errorf("%s (n=%d): concurrent %s (goroutine %d, call %d, round %d) returned %v %v, sequentially it returns %v %v", c.Cfg.Kind, n, s.M, g, i, round, gr.Vals, gr.ItLog, want.Vals, want.ItLog)
					}
				}
			}
		}
	}
	if firstErr != nil {
		return info, firstErr
	}
	if d := raceErrors() - racesBefore; d > 0 {
		var ms []string
		for _, list := range c.Readers {
			for _, s := range list {
				if !slices.Contains(ms, s.M) {
					ms = append(ms, s.M)
				}
			}
		}
		slices.Sort(ms)
		return info, fmt.Errorf("%s (n=%d): the race detector reported %d data race(s) while %d goroutines issued only read-only calls %v (report in the shard log)", c.Cfg.Kind, n, d, len(c.Readers), ms)
	}
	if g := fp.Of(r.Obj); g != f0 {
		return info, fmt.Errorf("%s (n=%d): the container changed during concurrent read-only calls: %s", c.Cfg.Kind, n, fp.Diff(f0, g))
	}
	busy := 0
	for _, list := range c.Readers {
		walks := 0
		for _, s := range list {
			if structural(s.M) {
				walks++
			}
		}
		if len(list) >= 2 && walks >= 1 {
			busy++
		}
	}
	info.NonTrivial = n > 0 && busy >= 2
	return info, nil
}

func genConcurrent(kind string) func(t *rapid.T) Case {
	return func(t *rapid.T) Case {
		c := genState(t, kind)
		g := rapid.IntRange(2, 8).Draw(t, "goroutines")
		ro := readOnlyMethods(c.Cfg)
		for i := 0; i < g; i++ {
			c.Readers = append(c.Readers, refl.GenStepsFor(t, c.Cfg.Kind, ro, 2, 6))
		}
		c.Rounds = rapid.IntRange(1, 3).Draw(t, "rounds")
		return c
	}
}

func TestConcurrentReaders(t *testing.T) {
	if !raceEnabled {
		t.Skip("not built with -race")
	}
	for _, kind := range refl.Kinds {
		pbt.Run(t, pbt.Target[Case]{Name: "concurrent/" + kind, Checks: 70, Gen: genConcurrent(kind), Check: checkConcurrent})
	}
	// T = any: nil, pointers, errors and mixed dynamic types as elements
	elemFamily = "any"
	defer func() { elemFamily = "" }()
	for _, kind := range refl.Kinds {
		pbt.Run(t, pbt.Target[Case]{Name: "concurrent/" + kind + "/any", Checks: 20, Gen: genConcurrent(kind), Check: checkConcurrent})
	}
}

// TestPurity runs after the concurrent test (tests run in source order): state
// that is initialised once per process must still be cold when the goroutines start.
func TestPurity(t *testing.T) {
	for _, kind := range refl.Kinds {
		checks := 200
		if kind == "doublylinkedlist" || kind == "singlylinkedlist" {
			checks = 120 // fingerprints and observers walk the chain: three to four times the cost of the other kinds
		}
		pbt.Run(t, pbt.Target[Case]{Name: "pure/" + kind, Checks: checks, Gen: genPure(kind), Check: checkPure})
	}
	elemFamily = "any"
	defer func() { elemFamily = "" }()
	for _, kind := range refl.Kinds {
		pbt.Run(t, pbt.Target[Case]{Name: "pure/" + kind + "/any", Checks: 40, Gen: genPure(kind), Check: checkPure})
	}
}
