package c16

import (
	"cmp"
	"fmt"
	"math"
	"slices"
	"testing"

	"github.com/emirpasic/gods/v2/containers"
	"pgregory.net/rapid"

	"verif/harness/internal/all"
	"verif/harness/internal/fp"
	"verif/harness/internal/pbt"
	"verif/harness/internal/script"
)

// GetSortedValues / GetSortedValuesFunc over float64 contents that include NaN, the
// two zeros and the infinities (value containers and key-value containers alike:
// the contents are what Values() lists).  "Sorted order" is required in the form
// every sort of floats satisfies: the result is a permutation of the contents and
// its non-NaN elements ascend; the container is left as it was.

type FloatCase struct {
	Cfg all.Cfg     `json:"cfg"`
	Ops []script.Op `json:"ops"`
}

var nanDomain = script.Domain[float64]{Name: "nanfloat", Elems: []float64{0, math.NaN(), 1, -1, math.Inf(1), math.Copysign(0, -1), 2.5, math.Inf(-1), 7, -3, 100, 0.5, 3}}

func bitsOf(xs []float64) []uint64 {
	out := make([]uint64, len(xs))
	for i, x := range xs {
		out[i] = math.Float64bits(x)
		if x != x {
			out[i] = math.Float64bits(math.NaN())
		}
	}
	slices.Sort(out)
	return out
}

func checkFloat(c FloatCase) (pbt.Info, error) {
	var info pbt.Info
	h := all.New[float64](c.Cfg)
	for _, op := range c.Ops {
		if op.O == "load" || op.O == "badload" {
			continue // NaN and the infinities have no JSON form
		}
		script.Apply(h, nanDomain, op)
	}
	contents := h.Container.Values()
	nans := 0
	for _, x := range contents {
		if x != x {
			nans++
		}
	}
	f0 := fp.Of(h.Obj)
	for pass, got := range [][]float64{
		containers.GetSortedValues[float64](h.Container),
		containers.GetSortedValuesFunc[float64](h.Container, func(a, b float64) int { return cmp.Compare(b, a) }),
	} {
		name := []string{"GetSortedValues", "GetSortedValuesFunc(descending cmp.Compare)"}[pass]
		if !slices.Equal(bitsOf(got), bitsOf(contents)) {
			return info, fmt.Errorf("%s: %s = %v is not a permutation of the contents %v", c.Cfg.Kind, name, got, contents)
		}
		var finite []float64
		for _, x := range got {
			if x == x {
				finite = append(finite, x)
			}
		}
		for i := 1; i < len(finite); i++ {
			if pass == 0 && finite[i-1] > finite[i] || pass == 1 && finite[i-1] < finite[i] {
				return info, fmt.Errorf("%s: %s = %v is not in sorted order (contents %v)", c.Cfg.Kind, name, got, contents)
			}
		}
	}
	if g := fp.Of(h.Obj); g != f0 {
		return info, fmt.Errorf("%s: GetSortedValues/GetSortedValuesFunc altered the container: %s", c.Cfg.Kind, fp.Diff(f0, g))
	}
	info.NonTrivial = len(contents) >= 3 && nans >= 1 && nans < len(contents)
	return info, nil
}

func TestFloatSortedValues(t *testing.T) {
	for _, kind := range all.Kinds {
		kind := kind
		pbt.Run(t, pbt.Target[FloatCase]{Name: kind + "/sorted-values-float64", Checks: 400, Check: checkFloat, Gen: func(t *rapid.T) FloatCase {
			return FloatCase{Cfg: script.GenCfg(t, kind), Ops: script.GenOps(t, kind, len(nanDomain.Elems), 14)}
		}})
	}
}
