// C11 — JSON serialization round-trips every container state.
package c11

import (
	"bytes"
	"cmp"
	"encoding/json"
	"fmt"
	"slices"
	"testing"

	"github.com/emirpasic/gods/v2/queues/priorityqueue"
	"github.com/emirpasic/gods/v2/trees/binaryheap"
	"pgregory.net/rapid"

	"verif/harness/internal/all"
	"verif/harness/internal/pbt"
	"verif/harness/internal/script"
)

func TestMain(m *testing.M) { pbt.Main(m, "C11") }

type Case struct {
	Cfg  all.Cfg     `json:"cfg"`
	Elem string      `json:"elem"` // int | string
	Ops  []script.Op `json:"ops"`
}

func check(c Case) (pbt.Info, error) {
	switch c.Elem {
	case "int":
		return checkE(c, script.IntDomain)
	case "bigint":
		return checkE(c, script.BigIntDomain)
	case "float":
		return checkE(c, script.FloatDomain)
	}
	return checkE(c, script.StringDomain)
}

func drain[E cmp.Ordered](h *all.H[E]) []E {
	var out []E
	for i := 0; i < 1<<20; i++ {
		v, ok := h.Take()
		if !ok {
			break
		}
		out = append(out, v)
	}
	return out
}

func describe[E cmp.Ordered](s all.State[E]) string {
	if s.Keys != nil {
		ks := slices.Clone(s.Keys)
		var ps []string
		for _, k := range ks {
			ps = append(ps, fmt.Sprintf("%#v:%#v", k, s.Pairs[k]))
		}
		return fmt.Sprintf("size=%d keys=%#v values=%#v pairs=%v", s.Size, s.Keys, s.Values, ps)
	}
	return fmt.Sprintf("size=%d values=%#v", s.Size, s.Values)
}

func checkE[E cmp.Ordered](c Case, d script.Domain[E]) (pbt.Info, error) {
	var info pbt.Info
	kind := c.Cfg.Kind
	h := all.New[E](c.Cfg)
	m := script.NewModel[E](c.Cfg)
	for i, op := range c.Ops {
		script.Apply(h, d, op)
		m.Apply(d, op)
		// earlier snapshots: "ToJSON() returns ... every reachable state" includes states
		// reached after the container has already been serialised (through any of the
		// three entry points), e.g. by a Put that only replaces a value
		switch (i + len(c.Ops)) % 4 {
		case 0:
			_, _ = h.ToJSON()
		case 1:
			_, _ = json.Marshal(h.AsJSON)
		}
	}
	before := h.Observe()

	// 1. ToJSON: succeeds, valid, array or object
	b, err := h.ToJSON()
	if err != nil {
		return info, fmt.Errorf("%s ToJSON failed on state %s: %v", kind, describe(before), err)
	}
	if !json.Valid(b) {
		return info, fmt.Errorf("%s ToJSON returned invalid JSON %q for state %s", kind, b, describe(before))
	}
	tb := bytes.TrimSpace(b)
	wantOpen := byte('[')
	if all.KeyValue(kind) {
		wantOpen = '{'
	}
	if len(tb) == 0 || tb[0] != wantOpen {
		return info, fmt.Errorf("%s ToJSON returned %q, want a JSON %s", kind, b, map[byte]string{'[': "array", '{': "object"}[wantOpen])
	}
	// 2. json.Marshal(container) is the same document
	mb, err := json.Marshal(h.AsJSON)
	if err != nil {
		return info, fmt.Errorf("%s json.Marshal(container) failed (ToJSON gave %q): %v", kind, b, err)
	}
	if all.Unordered(kind) {
		var x, y any
		if json.Unmarshal(b, &x) != nil || json.Unmarshal(mb, &y) != nil || !sameUpToOrder(x, y) {
			return info, fmt.Errorf("%s ToJSON %q and json.Marshal %q differ beyond element order", kind, b, mb)
		}
	} else {
		// both calls serialise the same unchanged container; hash-ordered output aside they must agree byte for byte
		b2, _ := h.ToJSON()
		if !bytes.Equal(mb, b2) {
			return info, fmt.Errorf("%s ToJSON %q and json.Marshal %q differ", kind, b2, mb)
		}
	}
	if after := h.Observe(); !all.EqualStates(before, after) {
		return info, fmt.Errorf("%s ToJSON/Marshal changed the container: %s -> %s", kind, describe(before), describe(after))
	}
	// 2b. the returned bytes belong to the caller: serialising other containers
	// (of this and of other kinds, with other contents) must not change them
	keep := bytes.Clone(b)
	for _, otherKind := range []string{kind, "arraylist", "arraystack", "treeset"} {
		cfg := c.Cfg
		if otherKind != kind {
			cfg = all.Cfg{Kind: otherKind}
		}
		other := all.New[E](cfg)
		for i := 0; i < 3+len(c.Ops)%4; i++ {
			other.Add(d.At(i*5 + len(c.Ops)))
		}
		if _, err := other.ToJSON(); err != nil {
			return info, fmt.Errorf("%s: ToJSON of an unrelated %s failed: %v", kind, otherKind, err)
		}
		_, _ = json.Marshal(other.AsJSON)
	}
	if !bytes.Equal(b, keep) {
		return info, fmt.Errorf("%s: the bytes returned by ToJSON changed from %q to %q while other containers were serialised (shared buffer)", kind, keep, b)
	}
	// 3. reload into fresh containers of the same configuration
	f1, f2 := all.New[E](c.Cfg), all.New[E](c.Cfg)
	if err := f1.FromJSON(b); err != nil {
		return info, fmt.Errorf("%s FromJSON(own output %q) failed: %v", kind, b, err)
	}
	if err := json.Unmarshal(b, f2.AsJSON); err != nil {
		return info, fmt.Errorf("%s json.Unmarshal(own output %q) failed: %v", kind, b, err)
	}
	for i, f := range []*all.H[E]{f1, f2} {
		how := []string{"FromJSON", "json.Unmarshal"}[i]
		got := f.Observe()
		if !all.EqualStates(before, got) {
			return info, fmt.Errorf("%s %s(%q) into a fresh container gives %s, original is %s", kind, how, b, describe(got), describe(before))
		}
		if h.Iterate != nil && all.Family(kind) != "heap" {
			ok1, ov1 := h.Iterate()
			ok2, ov2 := f.Iterate()
			if !slices.Equal(ok1, ok2) || !slices.Equal(ov1, ov2) {
				return info, fmt.Errorf("%s %s(%q): iteration order %v/%v differs from the original %v/%v", kind, how, b, ok2, ov2, ok1, ov1)
			}
		}
		if h.Full != nil && h.Full() != f.Full() {
			return info, fmt.Errorf("%s %s(%q): Full()=%v, original %v", kind, how, b, f.Full(), h.Full())
		}
		// a second round trip of the reloaded container gives the same document (up to hash order)
		b3, err := f.ToJSON()
		if err != nil {
			return info, fmt.Errorf("%s ToJSON of the reloaded container failed: %v", kind, err)
		}
		if !all.Unordered(kind) && all.Family(kind) != "heap" && !bytes.Equal(b3, b) {
			return info, fmt.Errorf("%s reloaded container serialises to %q, original to %q", kind, b3, b)
		}
	}
	// 4. same subsequent Pop/Dequeue sequence
	if h.Take != nil {
		want := drain(h)
		for i, f := range []*all.H[E]{f1, f2} {
			if got := drain(f); !slices.Equal(got, want) {
				return info, fmt.Errorf("%s %s(%q): subsequent Pop/Dequeue sequence %v, original %v", kind, []string{"FromJSON", "json.Unmarshal"}[i], b, got, want)
			}
		}
	}
	// ---- classification ----
	n := m.Len()
	valueIsKey := false
	if all.KeyValue(kind) {
		for k, v := range m.Map {
			if _, ok := m.Map[v]; ok && v != k {
				valueIsKey = true
			}
		}
	}
	ringPartial := kind == "circularbuffer" && n > 0 && (n < c.Cfg.Cap || m.Enqueued > c.Cfg.Cap)
	info.NonTrivial = n > 0 && (m.Removals+m.Evictions > 0 || valueIsKey || ringPartial)
	if valueIsKey {
		info.Label("value-equals-another-key")
	}
	if ringPartial {
		info.Label("ring-partial-or-wrapped")
	}
	if n == 0 {
		info.Label("empty-state")
		if len(c.Ops) == 0 {
			info.Label("never-filled")
		}
	}
	return info, nil
}

// sameUpToOrder compares decoded JSON values, ignoring array element order at the top level.
func sameUpToOrder(x, y any) bool {
	xa, ok1 := x.([]any)
	ya, ok2 := y.([]any)
	if ok1 && ok2 {
		if len(xa) != len(ya) {
			return false
		}
		key := func(v any) string { b, _ := json.Marshal(v); return string(b) }
		var xs, ys []string
		for i := range xa {
			xs, ys = append(xs, key(xa[i])), append(ys, key(ya[i]))
		}
		slices.Sort(xs)
		slices.Sort(ys)
		return slices.Equal(xs, ys)
	}
	bx, _ := json.Marshal(x)
	by, _ := json.Marshal(y)
	return bytes.Equal(bx, by)
}

func gen(kind, elem string) func(t *rapid.T) Case {
	return func(t *rapid.T) Case {
		switch elem {
		case "string":
			return Case{Cfg: script.GenCfg(t, kind), Elem: elem, Ops: script.GenOps(t, kind, len(script.StringDomain.Elems), 24)}
		case "float":
			return Case{Cfg: script.GenCfg(t, kind), Elem: elem, Ops: script.GenOps(t, kind, len(script.FloatDomain.Elems), 24)}
		case "bigint": // dozens to hundreds of elements; rings up to capacity 100, B-tree orders up to 33
			cfg := script.GenCfg(t, kind)
			if kind == "circularbuffer" {
				cfg.Cap = []int{9, 16, 31, 64, 100}[rapid.IntRange(0, 4).Draw(t, "bigcap")]
			}
			if kind == "btree" {
				cfg.Order = []int{3, 4, 7, 16, 33}[rapid.IntRange(0, 4).Draw(t, "bigorder")]
			}
			return Case{Cfg: cfg, Elem: elem, Ops: script.GenOpsBig(t, kind, len(script.BigIntDomain.Elems))}
		}
		return Case{Cfg: script.GenCfg(t, kind), Elem: elem, Ops: script.GenOps(t, kind, len(script.IntDomain.Elems), 24)}
	}
}

func TestGenerated(t *testing.T) {
	for _, kind := range all.Kinds {
		for _, elem := range []string{"int", "string"} {
			pbt.Run(t, pbt.Target[Case]{Name: kind + "/" + elem, Checks: 4000, Gen: gen(kind, elem), Check: check})
		}
		if !all.KeyValue(kind) { // float64 is not a JSON object key type (encoding/json rejects it): value containers only
			pbt.Run(t, pbt.Target[Case]{Name: kind + "/float", Checks: 1500, Gen: gen(kind, "float"), Check: check})
		}
		pbt.Run(t, pbt.Target[Case]{Name: kind + "/bigint", Checks: 250, Gen: gen(kind, "bigint"), Check: check})
	}
}

// ---------------------------------------------------------------------------
// heaps with ties between distinguishable elements: the round trip must keep
// the exact subsequent Pop/Dequeue sequence (the property's wording), which the
// int/string targets above cannot see because equal-comparing ints are identical

type Item struct {
	P  int
	ID int
}

type TieCase struct {
	Kind string `json:"kind"` // binaryheap | priorityqueue
	Max  bool   `json:"max"`
	Ops  []int  `json:"ops"` // >= 0: push an item with that priority (ID = position); -1: pop
}

func itemCmp(max bool) func(a, b Item) int {
	if max {
		return func(a, b Item) int { return cmp.Compare(b.P, a.P) }
	}
	return func(a, b Item) int { return cmp.Compare(a.P, b.P) }
}

type tieHeap struct {
	push   func(Item)
	pop    func() (Item, bool)
	values func() []Item
	toJSON func() ([]byte, error)
	from   func([]byte) error
	asJSON any
}

func newTieHeap(kind string, max bool) tieHeap {
	f := itemCmp(max)
	if kind == "binaryheap" {
		h := binaryheap.NewWith(f)
		return tieHeap{func(i Item) { h.Push(i) }, h.Pop, h.Values, h.ToJSON, h.FromJSON, h}
	}
	q := priorityqueue.NewWith(f)
	return tieHeap{q.Enqueue, q.Dequeue, q.Values, q.ToJSON, q.FromJSON, q}
}

func checkTies(c TieCase) (pbt.Info, error) {
	var info pbt.Info
	h := newTieHeap(c.Kind, c.Max)
	n, pops := 0, 0
	seen := map[int]int{}
	ties := false
	for i, op := range c.Ops {
		if op < 0 {
			if _, ok := h.pop(); ok {
				n--
				pops++
			}
			continue
		}
		h.push(Item{P: op, ID: i})
		n++
		seen[op]++
		if seen[op] > 1 {
			ties = true
		}
	}
	b, err := h.toJSON()
	if err != nil || !json.Valid(b) {
		return info, fmt.Errorf("%s ToJSON: %v %q", c.Kind, err, b)
	}
	mb, err := json.Marshal(h.asJSON)
	if err != nil || !bytes.Equal(mb, b) {
		return info, fmt.Errorf("%s ToJSON %q and json.Marshal %q (%v) differ", c.Kind, b, mb, err)
	}
	f1, f2 := newTieHeap(c.Kind, c.Max), newTieHeap(c.Kind, c.Max)
	if err := f1.from(b); err != nil {
		return info, fmt.Errorf("%s FromJSON(own output %q) failed: %v", c.Kind, b, err)
	}
	if err := json.Unmarshal(b, f2.asJSON); err != nil {
		return info, fmt.Errorf("%s json.Unmarshal(own output %q) failed: %v", c.Kind, b, err)
	}
	vals := h.values()
	for i, f := range []tieHeap{f1, f2} {
		if got := f.values(); !slices.Equal(got, vals) && len(got)+len(vals) > 0 {
			return info, fmt.Errorf("%s reloaded (%d) iterates %v, original %v", c.Kind, i, got, vals)
		}
	}
	var want []Item
	for {
		x, ok := h.pop()
		if !ok {
			break
		}
		want = append(want, x)
	}
	for i, f := range []tieHeap{f1, f2} {
		var got []Item
		for {
			x, ok := f.pop()
			if !ok {
				break
			}
			got = append(got, x)
		}
		if !slices.Equal(got, want) && len(got)+len(want) > 0 {
			return info, fmt.Errorf("%s: after reloading %q (%s) the Pop/Dequeue sequence is %v, the original container yields %v", c.Kind, b, []string{"FromJSON", "json.Unmarshal"}[i], got, want)
		}
	}
	info.NonTrivial = n >= 4 && ties
	if pops > 0 {
		info.Label("after-pops")
	}
	if ties {
		info.Label("ties")
	}
	return info, nil
}

func genTies(kind string) func(t *rapid.T) TieCase {
	return func(t *rapid.T) TieCase {
		c := TieCase{Kind: kind, Max: rapid.Bool().Draw(t, "max")}
		hi := []int{1, 2, 4}[rapid.IntRange(0, 2).Draw(t, "prange")]
		c.Ops = rapid.SliceOfN(rapid.IntRange(-1, hi), 0, 24).Draw(t, "ops")
		more := rapid.SliceOfN(rapid.IntRange(0, hi), 0, 12).Draw(t, "more")
		c.Ops = append(c.Ops, more...)
		return c
	}
}

func TestHeapTies(t *testing.T) {
	for _, kind := range []string{"binaryheap", "priorityqueue"} {
		pbt.Run(t, pbt.Target[TieCase]{Name: kind + "/ties", Checks: 8000, Gen: genTies(kind), Check: checkTies})
	}
}
