// Package ordtypes checks the DEFAULT constructors (New, ordered by cmp.Compare) of the
// comparator-based containers over a family of ordered element types: named float
// types with NaN, the zeros and the infinities, 64-bit integers at the ends of their
// ranges, 8-bit integers, named strings.  The constructors are generic over
// cmp.Ordered and documented to order by the natural order of the type; a natural
// comparator specialised by a type switch, or built on subtraction, differs from
// cmp.Compare exactly on such types and values.
package ordtypes

import (
	"cmp"
	"fmt"
	"math"
	"slices"

	"github.com/emirpasic/gods/v2/maps/treebidimap"
	"github.com/emirpasic/gods/v2/maps/treemap"
	"github.com/emirpasic/gods/v2/queues/priorityqueue"
	"github.com/emirpasic/gods/v2/sets/treeset"
	"github.com/emirpasic/gods/v2/trees/avltree"
	"github.com/emirpasic/gods/v2/trees/binaryheap"
	"github.com/emirpasic/gods/v2/trees/btree"
	"github.com/emirpasic/gods/v2/trees/redblacktree"
)

type (
	NF64 float64
	NF32 float32
	NStr string
	NI64 int64
)

// Case: a type of the family, and indices into its value list (insertion order, with
// repeats), a prefix of which is removed again afterwards.
type Case struct {
	Type    string `json:"type"`
	Order   int    `json:"order"` // B-tree order
	Inserts []int  `json:"inserts"`
	Removes []int  `json:"removes"`
	Probes  []int  `json:"probes"`
}

var Types = []string{"named-float64", "named-float32", "float32", "uint64", "int64", "named-int64", "int8", "uint8", "int32", "uint32", "uint16", "named-string", "uintptr"}

func nan32() float32 { return float32(math.NaN()) }

// Dispatch runs f-like generic checks for the case's type.
func Sorted(c Case) error {
	switch c.Type {
	case "named-float64":
		return sorted(c, []NF64{NF64(math.NaN()), NF64(math.Inf(-1)), -2.5, NF64(math.Copysign(0, -1)), 0, 1, 21.5, 1e300, NF64(math.Inf(1)), NF64(math.NaN())})
	case "named-float32":
		return sorted(c, []NF32{NF32(nan32()), NF32(math.Inf(-1)), -2.5, NF32(math.Copysign(0, -1)), 0, 1, 21.5, 1e30, NF32(math.Inf(1))})
	case "float32":
		return sorted(c, []float32{nan32(), float32(math.Inf(-1)), -2.5, 0, 1, 21.5, 1e30, float32(math.Inf(1))})
	case "uint64":
		return sorted(c, []uint64{0, 1, 1 << 31, 1 << 32, 1<<63 - 1, 1 << 63, 1<<63 + 1, math.MaxUint64 - 1, math.MaxUint64})
	case "int64":
		return sorted(c, []int64{math.MinInt64, math.MinInt64 + 1, -(1 << 32), -1, 0, 1, 1 << 32, math.MaxInt64 - 1, math.MaxInt64})
	case "named-int64":
		return sorted(c, []NI64{math.MinInt64, -(1 << 40), -1, 0, 1, 1 << 40, math.MaxInt64})
	case "int8":
		return sorted(c, []int8{-128, -127, -1, 0, 1, 126, 127})
	case "uint8":
		return sorted(c, []uint8{0, 1, 127, 128, 254, 255})
	case "int32":
		return sorted(c, []int32{math.MinInt32, -1, 0, 1, math.MaxInt32})
	case "uint32":
		return sorted(c, []uint32{0, 1, 1 << 31, math.MaxUint32 - 1, math.MaxUint32})
	case "uint16":
		return sorted(c, []uint16{0, 1, 1 << 15, math.MaxUint16})
	case "uintptr":
		return sorted(c, []uintptr{0, 1, 1 << 40, math.MaxUint64})
	case "named-string":
		return sorted(c, []NStr{"", "\x00", "A", "a", "aa", "b", "é", "z"})
	}
	return fmt.Errorf("unknown type %q", c.Type)
}

func Heaps(c Case) error {
	switch c.Type {
	case "named-float64":
		return heaps(c, []NF64{NF64(math.NaN()), NF64(math.Inf(-1)), -2.5, NF64(math.Copysign(0, -1)), 0, 1, 21.5, 1e300, NF64(math.Inf(1)), NF64(math.NaN())})
	case "named-float32":
		return heaps(c, []NF32{NF32(nan32()), NF32(math.Inf(-1)), -2.5, 0, 1, 21.5, 1e30, NF32(math.Inf(1))})
	case "float32":
		return heaps(c, []float32{nan32(), float32(math.Inf(-1)), -2.5, 0, 1, 21.5, 1e30, float32(math.Inf(1))})
	case "uint64":
		return heaps(c, []uint64{0, 1, 1 << 31, 1 << 32, 1<<63 - 1, 1 << 63, 1<<63 + 1, math.MaxUint64 - 1, math.MaxUint64})
	case "int64":
		return heaps(c, []int64{math.MinInt64, math.MinInt64 + 1, -(1 << 32), -1, 0, 1, 1 << 32, math.MaxInt64 - 1, math.MaxInt64})
	case "named-int64":
		return heaps(c, []NI64{math.MinInt64, -(1 << 40), -1, 0, 1, 1 << 40, math.MaxInt64})
	case "int8":
		return heaps(c, []int8{-128, -127, -1, 0, 1, 126, 127})
	case "uint8":
		return heaps(c, []uint8{0, 1, 127, 128, 254, 255})
	case "int32":
		return heaps(c, []int32{math.MinInt32, -1, 0, 1, math.MaxInt32})
	case "uint32":
		return heaps(c, []uint32{0, 1, 1 << 31, math.MaxUint32 - 1, math.MaxUint32})
	case "uint16":
		return heaps(c, []uint16{0, 1, 1 << 15, math.MaxUint16})
	case "uintptr":
		return heaps(c, []uintptr{0, 1, 1 << 40, math.MaxUint64})
	case "named-string":
		return heaps(c, []NStr{"", "\x00", "A", "a", "aa", "b", "é", "z"})
	}
	return fmt.Errorf("unknown type %q", c.Type)
}

func pick[T any](vals []T, idx []int) []T {
	out := make([]T, 0, len(idx))
	for _, i := range idx {
		out = append(out, vals[((i%len(vals))+len(vals))%len(vals)])
	}
	return out
}

// same: element-wise equality under cmp.Compare (NaN is one key, -0 and +0 are one key).
func same[T cmp.Ordered](a, b []T) bool {
	return slices.EqualFunc(a, b, func(x, y T) bool { return cmp.Compare(x, y) == 0 })
}

func show[T any](xs []T) string { return fmt.Sprintf("%v", xs) }

// kv is the common surface of the key-value kinds built by their default constructors.
type kv[T cmp.Ordered] struct {
	name    string
	put     func(T, int)
	remove  func(T)
	get     func(T) (int, bool)
	keys    func() []T
	size    func() int
	min     func() (T, bool)
	max     func() (T, bool)
	floor   func(T) (T, bool)
	ceiling func(T) (T, bool)
}

func kinds[T cmp.Ordered](order int) []kv[T] {
	rb := redblacktree.New[T, int]()
	av := avltree.New[T, int]()
	bt := btree.New[T, int](order)
	tm := treemap.New[T, int]()
	ts := treeset.New[T]()
	tb := treebidimap.New[T, int]()
	var zero T
	return []kv[T]{
		{name: "redblacktree.New", put: rb.Put, remove: rb.Remove, get: rb.Get, keys: rb.Keys, size: rb.Size,
			min: func() (T, bool) {
				if n := rb.Left(); n != nil {
					return n.Key, true
				}
				return zero, false
			},
			max: func() (T, bool) {
				if n := rb.Right(); n != nil {
					return n.Key, true
				}
				return zero, false
			},
			floor: func(k T) (T, bool) {
				if n, ok := rb.Floor(k); ok {
					return n.Key, true
				}
				return zero, false
			},
			ceiling: func(k T) (T, bool) {
				if n, ok := rb.Ceiling(k); ok {
					return n.Key, true
				}
				return zero, false
			}},
		{name: "avltree.New", put: av.Put, remove: av.Remove, get: av.Get, keys: av.Keys, size: av.Size,
			min: func() (T, bool) {
				if n := av.Left(); n != nil {
					return n.Key, true
				}
				return zero, false
			},
			max: func() (T, bool) {
				if n := av.Right(); n != nil {
					return n.Key, true
				}
				return zero, false
			},
			floor: func(k T) (T, bool) {
				if n, ok := av.Floor(k); ok {
					return n.Key, true
				}
				return zero, false
			},
			ceiling: func(k T) (T, bool) {
				if n, ok := av.Ceiling(k); ok {
					return n.Key, true
				}
				return zero, false
			}},
		{name: "btree.New", put: bt.Put, remove: bt.Remove, get: bt.Get, keys: bt.Keys, size: bt.Size},
		{name: "treemap.New", put: tm.Put, remove: tm.Remove, get: tm.Get, keys: tm.Keys, size: tm.Size,
			min:     func() (T, bool) { k, _, ok := tm.Min(); return k, ok },
			max:     func() (T, bool) { k, _, ok := tm.Max(); return k, ok },
			floor:   func(k T) (T, bool) { f, _, ok := tm.Floor(k); return f, ok },
			ceiling: func(k T) (T, bool) { f, _, ok := tm.Ceiling(k); return f, ok }},
		{name: "treeset.New", put: func(k T, _ int) { ts.Add(k) }, remove: func(k T) { ts.Remove(k) },
			get: func(k T) (int, bool) { return 0, ts.Contains(k) }, keys: ts.Values, size: ts.Size},
		{name: "treebidimap.New", put: tb.Put, remove: tb.Remove, get: tb.Get, keys: tb.Keys, size: tb.Size},
	}
}

func sorted[T cmp.Ordered](c Case, vals []T) error {
	ins, rem, probes := pick(vals, c.Inserts), pick(vals, c.Removes), pick(vals, c.Probes)
	for _, k := range kinds[T](max(3, c.Order)) {
		model := []T{} // ascending under cmp.Compare, one representative per class
		find := func(x T) (int, bool) { return slices.BinarySearchFunc(model, x, cmp.Compare[T]) }
		check := func(when string) error {
			if got := k.keys(); !same(got, model) || k.size() != len(model) {
				return fmt.Errorf("%s[%s] %s: Keys()=%s Size()=%d, want %s (ascending under cmp.Compare, equal keys one key)", k.name, c.Type, when, show(got), k.size(), show(model))
			}
			if k.min != nil {
				if got, ok := k.min(); ok != (len(model) > 0) || ok && cmp.Compare(got, model[0]) != 0 {
					return fmt.Errorf("%s[%s] %s: least element (%v,%v), keys %s", k.name, c.Type, when, got, ok, show(model))
				}
				if got, ok := k.max(); ok != (len(model) > 0) || ok && cmp.Compare(got, model[len(model)-1]) != 0 {
					return fmt.Errorf("%s[%s] %s: greatest element (%v,%v), keys %s", k.name, c.Type, when, got, ok, show(model))
				}
			}
			for _, p := range append(slices.Clone(probes), vals...) {
				i, present := find(p)
				if _, ok := k.get(p); ok != present {
					return fmt.Errorf("%s[%s] %s: lookup of %v found=%v, keys %s", k.name, c.Type, when, p, ok, show(model))
				}
				if k.floor != nil {
					// floor: greatest key <= p; ceiling: least key >= p
					fi, ci := i-1, i
					if present {
						fi = i
					}
					if got, ok := k.floor(p); ok != (fi >= 0) || ok && cmp.Compare(got, model[fi]) != 0 {
						return fmt.Errorf("%s[%s] %s: Floor(%v)=(%v,%v), keys %s", k.name, c.Type, when, p, got, ok, show(model))
					}
					if got, ok := k.ceiling(p); ok != (ci < len(model)) || ok && cmp.Compare(got, model[ci]) != 0 {
						return fmt.Errorf("%s[%s] %s: Ceiling(%v)=(%v,%v), keys %s", k.name, c.Type, when, p, got, ok, show(model))
					}
				}
			}
			return nil
		}
		for j, x := range ins {
			k.put(x, j)
			if i, ok := find(x); !ok {
				model = slices.Insert(model, i, x)
			}
			if err := check(fmt.Sprintf("after inserting %s", show(ins[:j+1]))); err != nil {
				return err
			}
		}
		for j, x := range rem {
			k.remove(x)
			if i, ok := find(x); ok {
				model = slices.Delete(model, i, i+1)
			}
			if err := check(fmt.Sprintf("after inserting %s and removing %s", show(ins), show(rem[:j+1]))); err != nil {
				return err
			}
		}
	}
	return nil
}

func heaps[T cmp.Ordered](c Case, vals []T) error {
	ins := pick(vals, c.Inserts)
	want := slices.Clone(ins)
	slices.SortStableFunc(want, cmp.Compare[T])
	h := binaryheap.New[T]()
	q := priorityqueue.New[T]()
	half := len(ins) / 2
	h.Push(ins[:half]...) // one bulk push, then single pushes
	for _, x := range ins[half:] {
		h.Push(x)
	}
	for _, x := range ins {
		q.Enqueue(x)
	}
	for pi, pop := range []func() (T, bool){h.Pop, q.Dequeue} {
		name := []string{"binaryheap.New", "priorityqueue.New"}[pi]
		var got []T
		for {
			x, ok := pop()
			if !ok {
				break
			}
			got = append(got, x)
			if len(got) > len(ins)+1 {
				break
			}
		}
		if !same(got, want) {
			return fmt.Errorf("%s[%s]: draining after pushing %s yields %s, want the non-decreasing %s (cmp.Compare)", name, c.Type, show(ins), show(got), show(want))
		}
	}
	return nil
}
