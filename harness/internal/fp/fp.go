// Package fp computes a deep structural fingerprint of a value by reflection,
// including unexported fields (reading basic kinds, pointers, lengths,
// capacities and func code pointers of unexported fields is permitted by
// reflect).  It names no field, so it survives refactoring.  Raw addresses are
// part of the fingerprint: it is meant for before/after comparisons of the SAME
// object ("this call did not modify the container"), where a reallocated
// backing array, a re-linked node or a changed cached field must all show.
package fp

import (
	"fmt"
	"reflect"
	"sort"
	"strings"
)

type walker struct {
	sb      strings.Builder
	visited map[visit]bool
	nodes   int
}

type visit struct {
	p uintptr
	t reflect.Type
}

// Of returns the fingerprint of v as a string (compare with ==).
func Of(v any) string {
	w := &walker{visited: map[visit]bool{}}
	w.walk("", reflect.ValueOf(v))
	return w.sb.String()
}

// Diff describes the first difference between two fingerprints.
func Diff(a, b string) string {
	la, lb := strings.Split(a, "\n"), strings.Split(b, "\n")
	for i := 0; i < len(la) || i < len(lb); i++ {
		var x, y string
		if i < len(la) {
			x = la[i]
		}
		if i < len(lb) {
			y = lb[i]
		}
		if x != y {
			return fmt.Sprintf("first difference at line %d: %q became %q", i, x, y)
		}
	}
	return "no difference"
}

func (w *walker) line(path, s string) {
	w.sb.WriteString(path)
	w.sb.WriteByte('=')
	w.sb.WriteString(s)
	w.sb.WriteByte('\n')
}

func (w *walker) walk(path string, v reflect.Value) {
	w.nodes++
	if w.nodes > 2_000_000 {
		return
	}
	if !v.IsValid() {
		w.line(path, "invalid")
		return
	}
	switch v.Kind() {
	case reflect.Bool:
		w.line(path, fmt.Sprint(v.Bool()))
	case reflect.Int, reflect.Int8, reflect.Int16, reflect.Int32, reflect.Int64:
		w.line(path, fmt.Sprint(v.Int()))
	case reflect.Uint, reflect.Uint8, reflect.Uint16, reflect.Uint32, reflect.Uint64, reflect.Uintptr:
		w.line(path, fmt.Sprint(v.Uint()))
	case reflect.Float32, reflect.Float64:
		w.line(path, fmt.Sprint(v.Float()))
	case reflect.Complex64, reflect.Complex128:
		w.line(path, fmt.Sprint(v.Complex()))
	case reflect.String:
		w.line(path, fmt.Sprintf("%q", v.String()))
	case reflect.Func:
		if v.IsNil() {
			w.line(path, "func:nil")
		} else {
			w.line(path, fmt.Sprintf("func:%x", v.Pointer()))
		}
	case reflect.Chan, reflect.UnsafePointer:
		w.line(path, fmt.Sprintf("ptr:%x", v.Pointer()))
	case reflect.Pointer:
		if v.IsNil() {
			w.line(path, "nil")
			return
		}
		p := v.Pointer()
		w.line(path, fmt.Sprintf("&%x", p))
		k := visit{p, v.Type()}
		if w.visited[k] {
			return
		}
		w.visited[k] = true
		// the pointee starts a fresh path named after its visit number: paths stay short
		// on deep linked structures (a 1000-node list would otherwise cost O(n^2) text)
		w.walk(fmt.Sprintf("#%d", len(w.visited)), v.Elem())
	case reflect.Interface:
		if v.IsNil() {
			w.line(path, "iface:nil")
			return
		}
		w.line(path, "iface:"+v.Elem().Type().String())
		w.walk(path+"~", v.Elem())
	case reflect.Struct:
		t := v.Type()
		for i := 0; i < v.NumField(); i++ {
			w.walk(path+"."+t.Field(i).Name, v.Field(i))
		}
	case reflect.Array:
		for i := 0; i < v.Len(); i++ {
			w.walk(fmt.Sprintf("%s[%d]", path, i), v.Index(i))
		}
	case reflect.Slice:
		if v.IsNil() {
			w.line(path, "slice:nil")
			return
		}
		w.line(path, fmt.Sprintf("slice:len=%d,cap=%d,data=%x", v.Len(), v.Cap(), v.Pointer()))
		// walk the whole backing array: writes into spare capacity are modifications too
		full := v
		if v.Cap() > v.Len() {
			full = v.Slice(0, v.Cap())
		}
		for i := 0; i < full.Len(); i++ {
			w.walk(fmt.Sprintf("%s[%d]", path, i), full.Index(i))
		}
	case reflect.Map:
		if v.IsNil() {
			w.line(path, "map:nil")
			return
		}
		w.line(path, fmt.Sprintf("map:len=%d,hdr=%x", v.Len(), v.Pointer()))
		type ent struct {
			k string
			v reflect.Value
		}
		var ents []ent
		it := v.MapRange()
		for it.Next() {
			kw := &walker{visited: map[visit]bool{}}
			kw.walk("", it.Key())
			ents = append(ents, ent{kw.sb.String(), it.Value()})
		}
		sort.SliceStable(ents, func(i, j int) bool { return ents[i].k < ents[j].k })
		// keys that print alike (several NaN keys are distinct map keys): order such
		// a run by the entries' values, so that the fingerprint does not depend on
		// Go's map iteration order
		for i := 0; i < len(ents); {
			j := i + 1
			for j < len(ents) && ents[j].k == ents[i].k {
				j++
			}
			if j-i > 1 {
				run := ents[i:j]
				texts := make(map[int]string, len(run))
				for x := range run {
					vw := &walker{visited: map[visit]bool{}}
					vw.walk("", run[x].v)
					texts[x] = vw.sb.String()
				}
				idx := make([]int, len(run))
				for x := range idx {
					idx[x] = x
				}
				sort.SliceStable(idx, func(a, b int) bool { return texts[idx[a]] < texts[idx[b]] })
				sorted := make([]ent, len(run))
				for x, from := range idx {
					sorted[x] = run[from]
				}
				copy(run, sorted)
			}
			i = j
		}
		for _, e := range ents {
			key := strings.ReplaceAll(strings.TrimSpace(e.k), "\n", ";")
			w.walk(path+"{"+key+"}", e.v)
		}
	default:
		w.line(path, "kind:"+v.Kind().String())
	}
}
