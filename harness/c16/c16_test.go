// C16 — returned slices are snapshots and argument slices are copied.
package c16

import (
	"fmt"
	"slices"
	"testing"

	"github.com/emirpasic/gods/v2/containers"
	"pgregory.net/rapid"

	"verif/harness/internal/all"
	"verif/harness/internal/fp"
	"verif/harness/internal/pbt"
	"verif/harness/internal/refl"
	"verif/harness/internal/script"
)

func TestMain(m *testing.M) { pbt.Main(m, "C16") }

type Case struct {
	Cfg   all.Cfg     `json:"cfg"`
	Init  []int       `json:"init"`          // constructor values (variadic constructors only), handed over with spare capacity
	Ops   []script.Op `json:"ops"`           // builds the state
	Entry string      `json:"entry"`         // variadic entry point exercised ("" = none)
	Idx   int         `json:"idx"`           // raw index for Insert (resolved modulo size+1)
	Vals  []int       `json:"vals"`          // values handed to the entry point
	Spare int         `json:"spare"`         // spare capacity of the slices handed over
	Muts  []script.Op `json:"muts"`          // later container mutations
	Warm  []int       `json:"warm"`          // read-only calls (chosen by these raw integers) made before each snapshot is taken
	Big   bool        `json:"big,omitempty"` // elements are indices into the 260-value domain (large contents, long variadics)
}

var d = script.IntDomain

const poison = -777001

func describe(s all.State[int]) string {
	return fmt.Sprintf("size=%d keys=%v values=%v peek=(%d,%v)", s.Size, s.Keys, s.Values, s.PeekV, s.PeekOK)
}

func check(c Case) (pbt.Info, error) {
	var info pbt.Info
	d := d
	if c.Big {
		d = script.BigIntDomain
	}
	kind := c.Cfg.Kind
	fam := all.Family(kind)
	m := script.NewModel[int](c.Cfg)
	variadicCtor := fam == "list" || fam == "set"

	same := func(h *all.H[int], what string) error {
		if got, want := h.Observe(), m.Expect(); !all.EqualStates(got, want) {
			return fmt.Errorf("%s: %s: container is %s, expected %s", kind, what, describe(got), describe(want))
		}
		return nil
	}

	// (3a) constructor argument with spare capacity
	buf0 := make([]int, len(c.Init), len(c.Init)+c.Spare)
	for i, x := range c.Init {
		buf0[i] = d.At(x)
	}
	var h *all.H[int]
	if variadicCtor {
		h = all.New[int](c.Cfg, buf0...)
		for _, x := range c.Init {
			m.Apply(d, script.Op{O: "add", X: x})
		}
		full := buf0[:cap(buf0)]
		for i := range full {
			full[i] = poison
		}
		if err := same(h, "after overwriting the slice that was passed to the constructor"); err != nil {
			return info, err
		}
	} else {
		h = all.New[int](c.Cfg)
	}
	for _, op := range c.Ops {
		script.Apply(h, d, op)
		m.Apply(d, op)
	}
	if err := same(h, "after the state-building script"); err != nil {
		return info, err
	}

	// read-only calls first, so that any cache or memoised result is warm when the snapshots are taken
	warm := func() {
		for _, name := range refl.WarmUp(h.Obj, c.Warm) {
			pbt.AddToSet("warm-up reads (kind|method)", kind+"|"+name)
		}
	}
	warm()
	if err := same(h, "after read-only warm-up calls"); err != nil {
		return info, err
	}

	// (1) Values()/Keys() are snapshots: writing to them does not reach the container
	f0 := fp.Of(h.Obj)
	scribble := func(name string, s []int) error {
		for i := range s {
			s[i] = poison
		}
		if cap(s) > len(s) {
			ext := s[:cap(s)]
			for i := len(s); i < len(ext); i++ {
				ext[i] = poison
			}
		}
		_ = append(s, poison, poison)
		if err := same(h, "after overwriting and appending to the slice returned by "+name); err != nil {
			return err
		}
		if g := fp.Of(h.Obj); g != f0 {
			return fmt.Errorf("%s: writing to the slice returned by %s changed the container structurally: %s", kind, name, fp.Diff(f0, g))
		}
		return nil
	}
	vs := h.Values()
	if g := fp.Of(h.Obj); g != f0 {
		return info, fmt.Errorf("%s: Values() changed the container structurally: %s", kind, fp.Diff(f0, g))
	}
	if err := scribble("Values()", vs); err != nil {
		return info, err
	}
	if h.Keys != nil {
		if err := scribble("Keys()", h.Keys()); err != nil {
			return info, err
		}
	}
	sizeAtSnapshot := m.Len()

	// (3b) variadic entry point with spare capacity in the caller's slice
	var buf []int
	if c.Entry != "" {
		call := h.Variadic[c.Entry]
		if call == nil {
			return info, fmt.Errorf("%s has no variadic entry point %q", kind, c.Entry)
		}
		buf = make([]int, len(c.Vals), len(c.Vals)+c.Spare)
		for i, x := range c.Vals {
			buf[i] = d.At(x)
		}
		idx := 0
		switch c.Entry {
		case "Insert":
			idx = ((c.Idx % (m.Len() + 1)) + m.Len() + 1) % (m.Len() + 1)
			ins := slices.Clone(buf)
			m.Seq = slices.Insert(m.Seq, idx, ins...)
		case "Prepend":
			m.Seq = append(slices.Clone(buf), m.Seq...)
		default:
			for _, x := range c.Vals {
				m.Apply(d, script.Op{O: "add", X: x})
			}
		}
		call(idx, buf...)
		if err := same(h, fmt.Sprintf("after %s(%v) with spare capacity %d", c.Entry, buf, c.Spare)); err != nil {
			return info, err
		}
		full := buf[:cap(buf)]
		for i := range full {
			full[i] = poison
		}
		if err := same(h, fmt.Sprintf("after overwriting the slice that was passed to %s", c.Entry)); err != nil {
			return info, err
		}
	}

	// (2) later container changes never reach a slice returned earlier, nor the caller's slice
	warm()
	snapV := h.Values()
	snapVfull := slices.Clone(snapV[:cap(snapV)])
	var snapK, snapKfull []int
	if h.Keys != nil {
		snapK = h.Keys()
		snapKfull = slices.Clone(snapK[:cap(snapK)])
	}
	bufFull := slices.Clone(buf[:cap(buf)])
	buf0Full := slices.Clone(buf0[:cap(buf0)])
	for i, op := range c.Muts {
		script.Apply(h, d, op)
		m.Apply(d, op)
		where := fmt.Sprintf("after later mutation %d %s(%d,%d,%v)", i, op.O, op.X, op.Y, op.Xs)
		// the very first Values()/Keys() after a mutation (before any other observer
		// runs) must be a snapshot too: write to it, then look at the container
		if i%2 == 0 {
			first := h.Values()
			for j := range first {
				first[j] = poison
			}
			if h.Keys != nil {
				fk := h.Keys()
				for j := range fk {
					fk[j] = poison
				}
			}
			if err := same(h, where+", after overwriting the first Values()/Keys() taken since that mutation"); err != nil {
				return info, err
			}
		}
		if !slices.Equal(snapV[:cap(snapV)], snapVfull) {
			return info, fmt.Errorf("%s: %s the slice returned earlier by Values() changed: %v -> %v", kind, where, snapVfull, snapV[:cap(snapV)])
		}
		if h.Keys != nil && !slices.Equal(snapK[:cap(snapK)], snapKfull) {
			return info, fmt.Errorf("%s: %s the slice returned earlier by Keys() changed: %v -> %v", kind, where, snapKfull, snapK[:cap(snapK)])
		}
		if !slices.Equal(buf[:cap(buf)], bufFull) {
			return info, fmt.Errorf("%s: %s the slice passed earlier to %s changed: %v -> %v", kind, where, c.Entry, bufFull, buf[:cap(buf)])
		}
		if !slices.Equal(buf0[:cap(buf0)], buf0Full) {
			return info, fmt.Errorf("%s: %s the slice passed earlier to the constructor changed: %v -> %v", kind, where, buf0Full, buf0[:cap(buf0)])
		}
		if err := same(h, where); err != nil {
			return info, err
		}
	}

	// (4) GetSortedValues / GetSortedValuesFunc: sorted contents, container untouched
	warm()
	want := slices.Clone(m.Expect().Values)
	slices.Sort(want)
	f1 := fp.Of(h.Obj)
	got := containers.GetSortedValues[int](h.Container)
	if !slices.Equal(got, want) && len(got)+len(want) > 0 {
		return info, fmt.Errorf("%s: GetSortedValues = %v, want %v", kind, got, want)
	}
	rev := func(a, b int) int { return b - a }
	gotR := containers.GetSortedValuesFunc[int](h.Container, func(a, b int) int {
		if a < b {
			return 1
		} else if a > b {
			return -1
		}
		return 0
	})
	_ = rev
	wantR := slices.Clone(want)
	slices.Reverse(wantR)
	if !slices.Equal(gotR, wantR) && len(gotR)+len(wantR) > 0 {
		return info, fmt.Errorf("%s: GetSortedValuesFunc(descending) = %v, want %v", kind, gotR, wantR)
	}
	// comparators whose results are not -1/0/+1 (a result of +3 is as much "greater" as
	// +1), ascending and descending, and a many-to-one order (validity: a permutation of
	// the contents, non-decreasing under the comparator)
	mag := func(a, b int) int {
		switch {
		case a < b:
			return -2 - int(uint(b-a)%5)
		case a > b:
			return 2 + int(uint(a-b)%5)
		}
		return 0
	}
	if gotM := containers.GetSortedValuesFunc[int](h.Container, mag); !slices.Equal(gotM, want) && len(gotM)+len(want) > 0 {
		return info, fmt.Errorf("%s: GetSortedValuesFunc(ascending, comparator results of magnitude 2..6) = %v, want %v", kind, gotM, want)
	}
	if gotM := containers.GetSortedValuesFunc[int](h.Container, func(a, b int) int { return mag(b, a) }); !slices.Equal(gotM, wantR) && len(gotM)+len(wantR) > 0 {
		return info, fmt.Errorf("%s: GetSortedValuesFunc(descending, comparator results of magnitude 2..6) = %v, want %v", kind, gotM, wantR)
	}
	coarse := func(a, b int) int { return mag(a>>2, b>>2) }
	gotC := containers.GetSortedValuesFunc[int](h.Container, coarse)
	if sortedC := slices.Clone(gotC); len(gotC) > 0 || len(want) > 0 {
		slices.Sort(sortedC)
		if !slices.Equal(sortedC, want) {
			return info, fmt.Errorf("%s: GetSortedValuesFunc(many-to-one order) = %v is not a permutation of the contents %v", kind, gotC, want)
		}
		for i := 1; i < len(gotC); i++ {
			if coarse(gotC[i-1], gotC[i]) > 0 {
				return info, fmt.Errorf("%s: GetSortedValuesFunc(many-to-one order) = %v is not sorted under the comparator at %d", kind, gotC, i)
			}
		}
	}
	if err := same(h, "after GetSortedValues / GetSortedValuesFunc"); err != nil {
		return info, err
	}
	if g := fp.Of(h.Obj); g != f1 {
		return info, fmt.Errorf("%s: GetSortedValues changed the container structurally: %s", kind, fp.Diff(f1, g))
	}
	for i := range got {
		got[i] = poison
	}
	if err := same(h, "after overwriting the result of GetSortedValues"); err != nil {
		return info, err
	}
	// the order of removal is intact (heap still pops in order, stack/queue order kept)
	if h.Take != nil {
		exp := m.Expect()
		seq := exp.Values
		if fam == "heap" {
			seq = script.SortedBy(h.Less, m.Seq)
		}
		for i, w := range seq {
			if v, ok := h.Take(); !ok || v != w {
				return info, fmt.Errorf("%s: after GetSortedValues the %d-th Pop/Dequeue gives (%d,%v), want %d", kind, i, v, ok, w)
			}
		}
	}

	info.NonTrivial = sizeAtSnapshot >= 2 && (c.Entry == "" || len(c.Vals) >= 1 && c.Spare > 0)
	if c.Entry != "" {
		info.Label("entry:" + c.Entry)
	}
	if c.Spare > 0 {
		info.Label("spare-capacity")
	}
	if len(c.Muts) > 0 {
		info.Label("later-mutations")
	}
	return info, nil
}

func gen(kind string) func(t *rapid.T) Case {
	return func(t *rapid.T) Case {
		n := len(d.Elems)
		c := Case{Cfg: script.GenCfg(t, kind)}
		c.Spare = []int{0, 1, 3, 8}[rapid.IntRange(0, 3).Draw(t, "spare")]
		fam := all.Family(kind)
		if fam == "list" || fam == "set" {
			c.Init = rapid.SliceOfN(rapid.IntRange(0, n-1), 0, 5).Draw(t, "init")
		}
		c.Ops = script.GenOps(t, kind, n, 14)
		h := all.New[int](c.Cfg)
		var entries []string
		for name := range h.Variadic {
			entries = append(entries, name)
		}
		slices.Sort(entries)
		if len(entries) > 0 && rapid.IntRange(0, 4).Draw(t, "use-entry") != 0 {
			c.Entry = entries[rapid.IntRange(0, len(entries)-1).Draw(t, "entry")]
			c.Idx = rapid.IntRange(0, 40).Draw(t, "idx")
			c.Vals = rapid.SliceOfN(rapid.IntRange(0, n-1), 0, 5).Draw(t, "vals")
		}
		c.Muts = script.GenOps(t, kind, n, 8)
		c.Warm = rapid.SliceOfN(rapid.IntRange(0, 1<<12), 0, 5).Draw(t, "warm")
		return c
	}
}

// genBig: contents of dozens to hundreds of elements, variadic calls and
// constructor lists of up to 90 values, spare capacity up to 64, more later mutations.
func genBig(kind string) func(t *rapid.T) Case {
	return func(t *rapid.T) Case {
		n := len(script.BigIntDomain.Elems)
		c := Case{Cfg: script.GenCfg(t, kind), Big: true}
		if kind == "circularbuffer" {
			c.Cfg.Cap = []int{9, 16, 31, 64, 100, 300, 2048}[rapid.IntRange(0, 6).Draw(t, "bigcap")]
		}
		if kind == "btree" {
			c.Cfg.Order = []int{3, 4, 7, 16, 33}[rapid.IntRange(0, 4).Draw(t, "bigorder")]
		}
		c.Spare = []int{0, 1, 7, 64}[rapid.IntRange(0, 3).Draw(t, "spare")]
		fam := all.Family(kind)
		if fam == "list" || fam == "set" {
			c.Init = rapid.SliceOfN(rapid.IntRange(0, n-1), 0, 90).Draw(t, "init")
			if rapid.Bool().Draw(t, "long-init") {
				c.Init = rapid.SliceOfN(rapid.IntRange(0, n-1), 32, 140).Draw(t, "init-long")
			}
			if rapid.IntRange(0, 99).Draw(t, "init-ladder") == 61 {
				k := []int{513, 1025, 4097}[rapid.IntRange(0, 2).Draw(t, "init-ladder-size")]
				c.Init = make([]int, k)
				for i := range c.Init {
					c.Init[i] = (i * 7) % n
				}
			}
		}
		c.Ops = script.GenOpsBig(t, kind, n)
		if rapid.IntRange(0, 3).Draw(t, "no-script") == 0 {
			c.Ops = nil // the constructor / first variadic call meets a never-filled container
		}
		h := all.New[int](c.Cfg)
		var entries []string
		for name := range h.Variadic {
			entries = append(entries, name)
		}
		slices.Sort(entries)
		if len(entries) > 0 && rapid.IntRange(0, 4).Draw(t, "use-entry") != 0 {
			c.Entry = entries[rapid.IntRange(0, len(entries)-1).Draw(t, "entry")]
			c.Idx = rapid.IntRange(0, 400).Draw(t, "idx")
			c.Vals = rapid.SliceOfN(rapid.IntRange(0, n-1), 0, 90).Draw(t, "vals")
			if rapid.Bool().Draw(t, "long-vals") {
				c.Vals = rapid.SliceOfN(rapid.IntRange(0, n-1), 32, 200).Draw(t, "vals-long")
			}
			if kind != "binaryheap" && kind != "priorityqueue" && rapid.IntRange(0, 59).Draw(t, "ladder") == 37 {
				// one call past the sizes at which an implementation may switch strategy
				k := []int{513, 1025, 2049, 4097}[rapid.IntRange(0, 3).Draw(t, "ladder-size")]
				a := rapid.IntRange(0, n-1).Draw(t, "ladder-a")
				c.Vals = make([]int, k)
				for i := range c.Vals {
					c.Vals[i] = (a + i*5) % n
				}
			}
		}
		c.Muts = script.GenOps(t, kind, n, 30)
		c.Warm = rapid.SliceOfN(rapid.IntRange(0, 1<<12), 0, 8).Draw(t, "warm")
		return c
	}
}

func TestGenerated(t *testing.T) {
	for _, kind := range all.Kinds {
		pbt.Run(t, pbt.Target[Case]{Name: kind, Checks: 6000, Gen: gen(kind), Check: check})
		pbt.Run(t, pbt.Target[Case]{Name: kind + "/big", Checks: 150, Gen: genBig(kind), Check: check})
	}
}
