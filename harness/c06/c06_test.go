// C06 — heap and priority queue always yield a minimum and never lose elements.
package c06

import (
	"cmp"
	"encoding/json"
	"fmt"
	"slices"
	"testing"

	"github.com/emirpasic/gods/v2/queues/priorityqueue"
	"github.com/emirpasic/gods/v2/trees/binaryheap"
	"pgregory.net/rapid"

	"verif/harness/internal/dom"
	"verif/harness/internal/pbt"
	"verif/harness/internal/via"
)

func TestMain(m *testing.M) { pbt.Main(m, "C06") }

// Item is compared on P only; ID distinguishes elements that compare equal.
type Item struct {
	P  int
	ID int
}

type Op struct {
	O    string `json:"o"` // push (1 or k items), pop, peek, clear, load (FromJSON of Items), values
	Is   []Item `json:"is,omitempty"`
	Omit bool   `json:"omit,omitempty"` // load: the document omits the ID field of every item ({"P":p}), which denotes ID 0
}

type Case struct {
	Kind string `json:"kind"` // binaryheap | priorityqueue
	Cmp  string `json:"cmp"`  // min | max
	Ops  []Op   `json:"ops"`
}

var (
	minCmp = func(a, b Item) int { return cmp.Compare(a.P, b.P) }
	maxCmp = func(a, b Item) int { return cmp.Compare(b.P, a.P) }
	// the same two orders, returning magnitudes instead of -1/0/+1
	minMag = func(a, b Item) int { return 5 * (a.P - b.P) }
	maxMag = func(a, b Item) int { return 5 * (b.P - a.P) }
)

func comparator(id string) func(a, b Item) int {
	switch id {
	case "max":
		return maxCmp
	case "minmag":
		return minMag
	case "maxmag":
		return maxMag
	}
	return minCmp
}

type heap struct {
	push   func(...Item)
	pop    func() (Item, bool)
	peek   func() (Item, bool)
	clear  func()
	size   func() int
	empty  func() bool
	values func() []Item
	iter   func() []Item
	load   func([]byte) error
	// rew walks ONE long-lived iterator (made when the container was made) after
	// rewinding it: Begin()/First() "reset the iterator to its initial state" /
	// move it to the first element, End()/Last() likewise from the other side, so a
	// rewound iterator enumerates the current contents like a fresh one.
	rew func(mode int) []Item
}

type revIter interface {
	Next() bool
	Prev() bool
	Begin()
	End()
	First() bool
	Last() bool
	Value() Item
}

func rewound(it revIter) func(mode int) []Item {
	return func(mode int) []Item {
		var out []Item
		switch mode % 4 {
		case 0:
			for it.Begin(); it.Next(); {
				out = append(out, it.Value())
			}
		case 1:
			for ok := it.First(); ok; ok = it.Next() {
				out = append(out, it.Value())
			}
		case 2:
			for it.End(); it.Prev(); {
				out = append(out, it.Value())
			}
			slices.Reverse(out)
		case 3:
			for ok := it.Last(); ok; ok = it.Prev() {
				out = append(out, it.Value())
			}
			slices.Reverse(out)
		}
		return out
	}
}

func build(c Case) heap {
	f := comparator(c.Cmp)
	if c.Kind == "binaryheap" {
		h := binaryheap.NewWith(f)
		return heap{h.Push, h.Pop, h.Peek, h.Clear, h.Size, h.Empty, h.Values, func() []Item {
			var out []Item
			for it := h.Iterator(); it.Next(); {
				out = append(out, it.Value())
			}
			return out
		}, via.AutoLoader(h), rewound(h.Iterator())}
	}
	q := priorityqueue.NewWith(f)
	return heap{func(is ...Item) {
		for _, i := range is {
			q.Enqueue(i)
		}
	}, q.Dequeue, q.Peek, q.Clear, q.Size, q.Empty, q.Values, func() []Item {
		var out []Item
		for it := q.Iterator(); it.Next(); {
			out = append(out, it.Value())
		}
		return out
	}, via.AutoLoader(q), rewound(q.Iterator())}
}

func check(c Case) (pbt.Info, error) {
	var info pbt.Info
	h := build(c)
	f := comparator(c.Cmp)
	model := map[Item]int{} // multiset of exact elements
	total := 0
	var ntPopPushPop, ntBulkOnNonEmpty, ntLoadUnorderedPop, ties bool
	phase := 0
	loadedUnordered := false
	// minimal reports whether no member precedes x
	precededBy := func(x Item) (Item, bool) {
		// deterministic witness (rapid's shrinker needs identical messages on identical input)
		var best Item
		found := false
		for m := range model {
			if f(m, x) < 0 && (!found || f(m, best) < 0 || f(m, best) == 0 && m.ID < best.ID) {
				best, found = m, true
			}
		}
		return best, found
	}
	permutationOfModel := func(xs []Item) error {
		if len(xs) != total {
			return fmt.Errorf("lists %d elements, model holds %d", len(xs), total)
		}
		cnt := map[Item]int{}
		for _, x := range xs {
			cnt[x]++
		}
		for _, x := range xs { // in listing order: deterministic message
			if model[x] != cnt[x] {
				return fmt.Errorf("lists %v %d times, model holds it %d times", x, cnt[x], model[x])
			}
		}
		return nil
	}
	observe := func(step int, what string) error {
		if h.size() != total || h.empty() != (total == 0) {
			return fmt.Errorf("step %d %s: Size()=%d Empty()=%v, model holds %d", step, what, h.size(), h.empty(), total)
		}
		pk, ok := h.peek()
		if ok != (total > 0) {
			return fmt.Errorf("step %d %s: Peek() ok=%v with %d elements", step, what, ok, total)
		}
		if !ok && pk != (Item{}) {
			return fmt.Errorf("step %d %s: Peek() on empty returned %v", step, what, pk)
		}
		if ok {
			if model[pk] == 0 {
				return fmt.Errorf("step %d %s: Peek() returned %v, which is not contained", step, what, pk)
			}
			if m, bad := precededBy(pk); bad {
				return fmt.Errorf("step %d %s: Peek() returned %v although contained %v precedes it", step, what, pk, m)
			}
		}
		if total > 48 && step%8 != 0 && what != "after drain" || total > 1500 {
			return nil // large heaps: the O(n^2) listing is checked every 8th step (and not at all beyond 1500 elements)
		}
		for ni, xs := range [][]Item{h.values(), h.iter(), h.rew(step + 1)} {
			name := []string{"Values()", "iteration", "iteration with the rewound long-lived iterator (" + []string{"Begin+Next", "First+Next", "End+Prev", "Last+Prev"}[(step+1)%4] + ")"}[ni]
			if err := permutationOfModel(xs); err != nil {
				return fmt.Errorf("step %d %s: %s %v", step, what, name, err)
			}
			if len(xs) > 0 && xs[0] != pk {
				return fmt.Errorf("step %d %s: %s starts with %v but Peek() is %v", step, what, name, xs[0], pk)
			}
		}
		return nil
	}
	pop := func(step int, what string) error {
		x, ok := h.pop()
		if total == 0 {
			if ok || x != (Item{}) {
				return fmt.Errorf("step %d %s: Pop() on empty returned (%v,%v)", step, what, x, ok)
			}
			return nil
		}
		if !ok {
			return fmt.Errorf("step %d %s: Pop() failed with %d elements contained", step, what, total)
		}
		if model[x] == 0 {
			return fmt.Errorf("step %d %s: Pop() returned %v, which is not contained (lost, duplicated or altered element)", step, what, x)
		}
		if m, bad := precededBy(x); bad {
			return fmt.Errorf("step %d %s: Pop() returned %v although contained %v precedes it", step, what, x, m)
		}
		model[x]--
		if model[x] == 0 {
			delete(model, x)
		}
		total--
		return nil
	}
	seenP := map[int]bool{}
	for i, op := range c.Ops {
		switch op.O {
		case "push":
			if len(op.Is) >= 2 && total > 0 {
				ntBulkOnNonEmpty = true
			}
			for _, it := range op.Is {
				if seenP[it.P] {
					ties = true
				}
				seenP[it.P] = true
				model[it]++
				total++
			}
			h.push(op.Is...)
			if phase == 1 && len(op.Is) > 0 {
				phase = 2
			}
		case "pop":
			had := total > 0
			if err := pop(i, "Pop"); err != nil {
				return info, err
			}
			if had {
				if phase == 0 {
					phase = 1
				} else if phase == 2 {
					ntPopPushPop = true
				}
				if loadedUnordered {
					ntLoadUnorderedPop = true
				}
			}
		case "peek", "values":
		case "clear":
			h.clear()
			model = map[Item]int{}
			total = 0
		case "load":
			if op.Omit {
				for j := range op.Is {
					op.Is[j].ID = 0 // what the document denotes
				}
			}
			data, _ := json.Marshal(op.Is)
			if op.Is == nil {
				data = []byte("[]")
			}
			if op.Omit {
				type partial struct{ P int }
				ps := make([]partial, len(op.Is))
				for j, it := range op.Is {
					ps[j] = partial{it.P}
				}
				data, _ = json.Marshal(ps)
			}
			if err := h.load(data); err != nil {
				return info, fmt.Errorf("step %d: FromJSON(%s) failed: %v", i, data, err)
			}
			model = map[Item]int{}
			total = 0
			loadedUnordered = false
			for j, it := range op.Is {
				model[it]++
				total++
				if j > 0 && f(op.Is[(j-1)/2], it) > 0 {
					loadedUnordered = true // the array is not already a valid heap layout
				}
			}
		default:
			return info, fmt.Errorf("bad op %q", op.O)
		}
		if err := observe(i, op.O); err != nil {
			return info, err
		}
	}
	// final drain: non-decreasing, multiset-exact
	var prev *Item
	for total > 0 {
		before := total
		pk, _ := h.peek()
		if err := pop(len(c.Ops), "drain"); err != nil {
			return info, err
		}
		_ = before
		cur := pk
		if prev != nil && f(*prev, cur) > 0 {
			return info, fmt.Errorf("drain: %v came out after %v (not non-decreasing)", cur, *prev)
		}
		p := cur
		prev = &p
	}
	if err := observe(len(c.Ops)+1, "after drain"); err != nil {
		return info, err
	}
	if ties {
		info.Label("ties")
	}
	if ntBulkOnNonEmpty {
		info.Label("bulk-push-on-non-empty")
	}
	if ntLoadUnorderedPop {
		info.Label("load-unordered-then-pop")
	}
	info.NonTrivial = ntPopPushPop || ntBulkOnNonEmpty || ntLoadUnorderedPop
	return info, nil
}

func gen(kind string) func(t *rapid.T) Case {
	return func(t *rapid.T) Case {
		c := Case{Kind: kind, Cmp: []string{"min", "max", "minmag", "maxmag"}[rapid.IntRange(0, 3).Draw(t, "cmp")]}
		hiP := []int{3, 20, 1000}[rapid.IntRange(0, 2).Draw(t, "prange")]
		id := 0
		items := func(k int) []Item {
			out := make([]Item, k)
			for i := range out {
				id++
				out[i] = Item{P: rapid.IntRange(0, hiP).Draw(t, "p"), ID: id}
			}
			return out
		}
		n := rapid.IntRange(0, 40).Draw(t, "n")
		for i := 0; i < n; i++ {
			switch dom.Weighted(t, "op", 1, 30, 12, 28, 4, 1, 6) {
			case 0:
			case 1:
				c.Ops = append(c.Ops, Op{O: "push", Is: items(1)})
			case 2:
				k := []int{0, 2, 3, 4, 5, 6, 7, 8, 17}[rapid.IntRange(0, 8).Draw(t, "k")]
				c.Ops = append(c.Ops, Op{O: "push", Is: items(k)})
			case 3:
				c.Ops = append(c.Ops, Op{O: "pop"})
			case 4:
				c.Ops = append(c.Ops, Op{O: "peek"})
			case 5:
				c.Ops = append(c.Ops, Op{O: "clear"})
			case 6:
				c.Ops = append(c.Ops, Op{O: "load", Is: items(rapid.IntRange(0, 9).Draw(t, "k")), Omit: rapid.IntRange(0, 3).Draw(t, "omit") == 0})
			}
		}
		return c
	}
}

// genLarge: heaps of up to a few hundred elements (5th-8th level, the backing
// array list's growth and shrink thresholds), bulk pushes of up to 70 values
// incl. exact powers of two, FromJSON of up to 90 elements, long pop runs.
func genLarge(kind string) func(t *rapid.T) Case {
	return func(t *rapid.T) Case {
		c := Case{Kind: kind, Cmp: []string{"min", "max", "minmag", "maxmag"}[rapid.IntRange(0, 3).Draw(t, "cmp")]}
		hiP := []int{2, 30, 1000}[rapid.IntRange(0, 2).Draw(t, "prange")]
		id := 0
		items := func(k int) []Item {
			out := make([]Item, k)
			for i := range out {
				id++
				out[i] = Item{P: rapid.IntRange(0, hiP).Draw(t, "p"), ID: id}
			}
			return out
		}
		phases := rapid.IntRange(1, 7).Draw(t, "phases")
		for p := 0; p < phases; p++ {
			n := rapid.IntRange(1, 90).Draw(t, "len")
			switch dom.Weighted(t, "phase", 5, 4, 4, 2, 1) {
			case 0:
				for i := 0; i < n; i++ {
					c.Ops = append(c.Ops, Op{O: "push", Is: items(1)})
				}
			case 1:
				k := []int{16, 18, 31, 32, 33, 64, 70}[rapid.IntRange(0, 6).Draw(t, "k")]
				c.Ops = append(c.Ops, Op{O: "push", Is: items(k)})
			case 2:
				for i := 0; i < n; i++ {
					c.Ops = append(c.Ops, Op{O: "pop"})
				}
			case 3:
				c.Ops = append(c.Ops, Op{O: "load", Is: items(n)})
			default:
				c.Ops = append(c.Ops, Op{O: "clear"})
			}
		}
		return c
	}
}

// genHuge: a heap of thousands of elements (past 2048 and 4096), then ONE bulk push of
// hundreds to a thousand mostly small-priority items, then pops: bulk strategies that
// depend on the sizes of the heap and of the batch.
func genHuge(kind string) func(t *rapid.T) Case {
	return func(t *rapid.T) Case {
		c := Case{Kind: kind, Cmp: []string{"min", "max", "minmag", "maxmag"}[rapid.IntRange(0, 3).Draw(t, "cmp")]}
		n0 := []int{2100, 3000, 4200}[rapid.IntRange(0, 2).Draw(t, "n0")]
		k := []int{300, 456, 700, 1100}[rapid.IntRange(0, 3).Draw(t, "k")]
		a, b := rapid.IntRange(0, 1000).Draw(t, "a"), rapid.IntRange(1, 97).Draw(t, "b")
		base := make([]Item, n0)
		for i := range base {
			base[i] = Item{P: 1000 + (a+i*b)%5000, ID: i + 1}
		}
		batch := make([]Item, k)
		for i := range batch {
			batch[i] = Item{P: (a + i*b) % 7000, ID: n0 + i + 1} // many precede (or follow) everything already there
		}
		if rapid.Bool().Draw(t, "build-by-load") {
			c.Ops = append(c.Ops, Op{O: "load", Is: base})
		} else {
			c.Ops = append(c.Ops, Op{O: "push", Is: base})
		}
		c.Ops = append(c.Ops, Op{O: "push", Is: batch})
		for i := rapid.IntRange(1, 60).Draw(t, "pops"); i > 0; i-- {
			c.Ops = append(c.Ops, Op{O: "pop"})
		}
		return c
	}
}

func TestGenerated(t *testing.T) {
	for _, kind := range []string{"binaryheap", "priorityqueue"} {
		pbt.Run(t, pbt.Target[Case]{Name: kind + "/huge", Checks: 2, Gen: genHuge(kind), Check: check})
	}
	for _, kind := range []string{"binaryheap", "priorityqueue"} {
		pbt.Run(t, pbt.Target[Case]{Name: kind, Checks: 30000, Gen: gen(kind), Check: check})
		pbt.Run(t, pbt.Target[Case]{Name: kind + "/large", Checks: 150, Gen: genLarge(kind), Check: check})
	}
}

// TestExhaustive: every order of pushing the multiset {0,0,1,1,2,3} (distinct
// IDs) as single pushes, as one bulk push and as a FromJSON load, each followed
// by a full drain — all layouts of a 6-element heap with ties.
func TestExhaustive(t *testing.T) {
	ps := []int{0, 0, 1, 1, 2, 3}
	if pbt.Thorough() {
		ps = []int{0, 0, 1, 1, 2, 3, 3, 4}
	}
	note := fmt.Sprintf("every permutation of the priorities %v (distinct IDs) x {single pushes, one bulk push, FromJSON load, pushes interleaved with pops} x {min,max} x {heap, priority queue}, then drain", ps)
	pbt.Enumerate(t, pbt.Target[Case]{Name: "exhaustive-orders", Check: func(c Case) (pbt.Info, error) {
		info, err := check(c)
		info.NonTrivial = true
		return info, err
	}}, note, func(yield func(Case) bool) {
		idx := 0
		perm := make([]int, len(ps))
		for i := range perm {
			perm[i] = i
		}
		var rec func(k int) bool
		rec = func(k int) bool {
			if k == len(perm) {
				items := make([]Item, len(perm))
				for i, pi := range perm {
					items[i] = Item{P: ps[pi], ID: pi + 1}
				}
				for _, kind := range []string{"binaryheap", "priorityqueue"} {
					for _, cm := range []string{"min", "max"} {
						for mode := 0; mode < 4; mode++ {
							idx++
							if !pbt.Mine(idx) {
								continue
							}
							c := Case{Kind: kind, Cmp: cm}
							switch mode {
							case 0:
								for _, it := range items {
									c.Ops = append(c.Ops, Op{O: "push", Is: []Item{it}})
								}
							case 1:
								c.Ops = append(c.Ops, Op{O: "push", Is: items[:2]}, Op{O: "push", Is: items[2:]})
							case 2:
								c.Ops = append(c.Ops, Op{O: "load", Is: items})
							case 3:
								for j, it := range items {
									c.Ops = append(c.Ops, Op{O: "push", Is: []Item{it}})
									if j%3 == 2 {
										c.Ops = append(c.Ops, Op{O: "pop"})
									}
								}
							}
							if !yield(c) {
								return false
							}
						}
					}
				}
				return true
			}
			for i := k; i < len(perm); i++ {
				perm[k], perm[i] = perm[i], perm[k]
				if !rec(k + 1) {
					return false
				}
				perm[k], perm[i] = perm[i], perm[k]
			}
			return true
		}
		rec(0)
	})
}
