package refl

import (
	"cmp"
	"encoding/json"
	"errors"
	"fmt"
	"reflect"

	"github.com/emirpasic/gods/v2/lists/arraylist"
	"github.com/emirpasic/gods/v2/lists/doublylinkedlist"
	"github.com/emirpasic/gods/v2/lists/singlylinkedlist"
	"github.com/emirpasic/gods/v2/maps/hashbidimap"
	"github.com/emirpasic/gods/v2/maps/hashmap"
	"github.com/emirpasic/gods/v2/maps/linkedhashmap"
	"github.com/emirpasic/gods/v2/maps/treebidimap"
	"github.com/emirpasic/gods/v2/maps/treemap"
	"github.com/emirpasic/gods/v2/queues/arrayqueue"
	"github.com/emirpasic/gods/v2/queues/circularbuffer"
	"github.com/emirpasic/gods/v2/queues/linkedlistqueue"
	"github.com/emirpasic/gods/v2/queues/priorityqueue"
	"github.com/emirpasic/gods/v2/sets/hashset"
	"github.com/emirpasic/gods/v2/sets/linkedhashset"
	"github.com/emirpasic/gods/v2/sets/treeset"
	"github.com/emirpasic/gods/v2/stacks/arraystack"
	"github.com/emirpasic/gods/v2/stacks/linkedliststack"
	"github.com/emirpasic/gods/v2/trees/avltree"
	"github.com/emirpasic/gods/v2/trees/binaryheap"
	"github.com/emirpasic/gods/v2/trees/btree"
	"github.com/emirpasic/gods/v2/trees/redblacktree"

	"verif/harness/internal/dom"
)

// Further element-type families.  The containers are generic; the properties
// quantify over "every container type", and nothing in the documentation
// restricts the element type beyond `comparable` (plus a comparator for the
// ordered kinds).  Two instantiations whose behaviour differs from int/float/
// string only if the code inspects the type at run time:
//
//	"any"   — T = any (an interface type): elements nil, ints, strings, a bool, a
//	          float, a comparable struct, an error and two DISTINCT pointers to
//	          equal contents (== tells them apart, reflect.DeepEqual does not);
//	"uint8" — T = U (a named unsigned 8-bit type): JSON object keys of an unsigned
//	          kind, values that wrap around at 256.
//	"int13" — T = E restricted to the thirteen values 0..12: the int image of the
//	          "any" domain, used by the type-isomorphism check (IsoCheck).
type A = any

// W is a wide comparable element type (80 bytes): the third member of the
// isomorphism family ("wide"), for code that looks at the SIZE of the element type.
type W struct {
	ID  int
	Pad [9]int
}

var wType = reflect.TypeOf(W{})

func welem(x int) W { return W{ID: mod(x, isoN)} }

var (
	natW = func(a, b W) int { return cmp.Compare(a.ID, b.ID) }
	revW = func(a, b W) int { return cmp.Compare(b.ID, a.ID) }
)

func cmpW(id string) func(a, b W) int {
	if id == dom.Rev || id == "revmag" {
		return revW
	}
	return natW
}

type U uint8

var (
	aType = reflect.TypeOf((*any)(nil)).Elem()
	uType = reflect.TypeOf(U(0))
)

type anyStruct struct{ X int }

type anyPointee struct{ Name string }

var (
	ptrA = &anyPointee{"same"}
	ptrB = &anyPointee{"same"}
	errA = errors.New("boom")
)

// anyElems[0] is the zero value of `any`, as E(0) is the zero value of E.
// anyStringer's String method dereferences its receiver: fmt prints a nil *anyStringer as
// "<nil>" (it recovers the nil-receiver panic); code that calls String() itself does not.
type anyStringer struct{ name string }

func (s *anyStringer) String() string { return "stringer:" + s.name }

var anyElems = []any{nil, 1, "a", ptrA, ptrB, errA, 2.5, true, anyStruct{1}, "", 7, 0, (*anyStringer)(nil)}

const isoN = 13

func aelem(x int) any { return anyElems[mod(x, len(anyElems))] }

var uElems = []U{0, 1, 2, 3, 4, 5, 6, 7, 8, 9, 10, 100, 127, 128, 200, 254, 255}

func uelem(x int) U { return uElems[mod(x, len(uElems))] }

// rankA is the position of an element in the domain; foreign values (loaded from
// JSON) rank behind it.
func rankA(x any) int {
	t := reflect.TypeOf(x)
	if t != nil && !t.Comparable() {
		return len(anyElems) + 1
	}
	for i, d := range anyElems {
		if d == x {
			return i
		}
	}
	return len(anyElems)
}

func textA(x any) string { return fmt.Sprintf("%T:%v", x, x) }

// comparators on `any`: by rank, foreign values by their printed form — a total
// preorder whose equivalence on the domain is ==.  Shared function values.
var (
	natA = func(a, b any) int {
		if c := cmp.Compare(rankA(a), rankA(b)); c != 0 || rankA(a) < len(anyElems) {
			return c
		}
		return cmp.Compare(textA(a), textA(b))
	}
	revA = func(a, b any) int { return natA(b, a) }
	natU = func(a, b U) int { return cmp.Compare(a, b) }
	revU = func(a, b U) int { return cmp.Compare(b, a) }
)

func cmpA(id string) func(a, b any) int {
	if id == dom.Rev || id == "revmag" {
		return revA
	}
	return natA
}

func cmpU(id string) func(a, b U) int {
	if id == dom.Rev || id == "revmag" {
		return revU
	}
	return natU
}

// newOf builds a container of element (and key, and value) type T with the given comparator.
func newOf[T comparable](c Cfg, f func(a, b T) int) any {
	switch c.Kind {
	case "arraylist":
		return arraylist.New[T]()
	case "singlylinkedlist":
		return singlylinkedlist.New[T]()
	case "doublylinkedlist":
		return doublylinkedlist.New[T]()
	case "hashset":
		return hashset.New[T]()
	case "treeset":
		return treeset.NewWith[T](f)
	case "linkedhashset":
		return linkedhashset.New[T]()
	case "arraystack":
		return arraystack.New[T]()
	case "linkedliststack":
		return linkedliststack.New[T]()
	case "arrayqueue":
		return arrayqueue.New[T]()
	case "linkedlistqueue":
		return linkedlistqueue.New[T]()
	case "circularbuffer":
		return circularbuffer.New[T](c.Cap)
	case "priorityqueue":
		return priorityqueue.NewWith[T](f)
	case "hashmap":
		return hashmap.New[T, T]()
	case "treemap":
		return treemap.NewWith[T, T](f)
	case "linkedhashmap":
		return linkedhashmap.New[T, T]()
	case "hashbidimap":
		return hashbidimap.New[T, T]()
	case "treebidimap":
		return treebidimap.NewWith[T, T](f, f)
	case "redblacktree":
		return redblacktree.NewWith[T, T](f)
	case "avltree":
		return avltree.NewWith[T, T](f)
	case "btree":
		return btree.NewWith[T, T](c.Order, f)
	case "binaryheap":
		return binaryheap.NewWith[T](f)
	}
	panic("refl: unknown kind " + c.Kind)
}

// nestedJSON reports whether a document holds an array or object INSIDE its
// top-level array/object.  Loaded into a container of `any`, such an element is a
// slice or a map: not comparable, so every ==-based or hash-based container panics
// on it (as a Go map does) — a value outside the domain of `comparable` elements.
func nestedJSON(b []byte) bool {
	var x any
	if json.Unmarshal(b, &x) != nil {
		return false
	}
	composite := func(v any) bool {
		switch v.(type) {
		case []any, map[string]any:
			return true
		}
		return false
	}
	switch t := x.(type) {
	case []any:
		for _, e := range t {
			if composite(e) {
				return true
			}
		}
	case map[string]any:
		for _, e := range t {
			if composite(e) {
				return true
			}
		}
	}
	return false
}
