// Package script is the kind-agnostic state-building script used by the
// whole-library properties (C11, C12, C15, C16, C18): a list of generic
// operations over element *indices* into a per-type domain, interpreted per
// container family, together with a reference model of the resulting state.
package script

import (
	"bytes"
	"cmp"
	"encoding/json"
	"slices"

	"pgregory.net/rapid"

	"verif/harness/internal/all"
	"verif/harness/internal/dom"
)

// Op is a generic operation.  X, Y and Xs are indices into the element domain.
//
//	add X        list Add / set Add / Push / Enqueue / Put(X, X)
//	addn Xs      variadic Add / Push where available, else repeated add
//	put X Y      key-value kinds: Put(X, Y); elsewhere add X
//	rem X        set/map Remove(X); list Remove(index X mod size); stacks, queues, heaps: Pop/Dequeue
//	clear
//	load Xs      FromJSON of the document that lists Xs (an array, or an object x:x for key-value kinds)
type Op struct {
	O  string `json:"o"`
	X  int    `json:"x,omitempty"`
	Y  int    `json:"y,omitempty"`
	Xs []int  `json:"xs,omitempty"`
}

// Domain maps indices to elements of type E.
type Domain[E cmp.Ordered] struct {
	Name  string
	Elems []E
}

func (d Domain[E]) At(i int) E {
	n := len(d.Elems)
	return d.Elems[((i%n)+n)%n]
}

// IntDomain and StringDomain are the two element types used throughout.  The
// string domain contains characters JSON must escape, numeric-looking strings,
// the empty string, strings that look like JSON, and strings contained in others.
var (
	IntDomain    = Domain[int]{"int", []int{0, 1, 2, 3, 4, 5, 6, 7, -1, 12, 1000000007, -9007199254740993}}
	StringDomain = Domain[string]{"string", []string{"a", "b", "c", "ab", "1", "2", "", " ", "q\"x", "é<&>", " ", "b\\", "null", "[]", "a\":\"c", "\t\n", "u\x1f4", "\x7f", "\x00", "\U000e0001"}}
)

// BigIntDomain has 704 values (contents of dozens to hundreds of elements);
// FloatDomain holds finite float64 values whose JSON text is unusual: exponent
// forms, negative zero, values near the limits of exact integers.
var (
	BigIntDomain = func() Domain[int] {
		d := Domain[int]{Name: "bigint"}
		for i := 0; i < 700; i++ {
			d.Elems = append(d.Elems, i*3-100)
		}
		d.Elems = append(d.Elems, 1<<62, -(1 << 62), 1<<53+1, 1000000007)
		return d
	}()
	FloatDomain = Domain[float64]{"float", []float64{0, 1, -1, 0.5, 2.5, 1e21, 1e-7, -1e300, 123456789.125, 9007199254740993, 3.141592653589793, 1e20, 100, -0.1, 5e-324, 1.7976931348623157e308}}
)

// noLoad: float keys are not JSON object keys, so key-value kinds over the float domain never load.
func noLoad(kind string, n int) bool {
	return all.KeyValue(kind) && n == len(FloatDomain.Elems)
}

// GenOpsBig draws a long state-building script (bulk adds of up to 60 values,
// often starting with one fill of 40..400 values, loads of long documents).
func GenOpsBig(t *rapid.T, kind string, n int) []Op {
	var ops []Op
	kv := all.KeyValue(kind)
	if rapid.IntRange(0, 2).Draw(t, "fill") != 0 {
		k := rapid.IntRange(40, 400).Draw(t, "fillsize")
		start := rapid.IntRange(0, n-1).Draw(t, "fillstart")
		xs := make([]int, k)
		for i := range xs {
			xs[i] = (start + i*7) % n
		}
		o := "addn"
		if rapid.IntRange(0, 3).Draw(t, "fill-by-load") == 0 {
			o = "load"
		}
		ops = append(ops, Op{O: o, Xs: xs})
	}
	for chunk := 0; chunk < 4; chunk++ {
		part := rapid.SliceOfN(rapid.Custom(func(t *rapid.T) Op {
			switch dom.Weighted(t, "op", 25, 25, 20, 28, 2, 4) {
			case 5:
				o := "load"
				if rapid.IntRange(0, 3).Draw(t, "spoiled") == 2 {
					o = "badload"
				}
				return Op{O: o, Xs: rapid.SliceOfN(rapid.IntRange(0, n-1), 0, 150).Draw(t, "doc")}
			case 0:
				return Op{O: "add", X: rapid.IntRange(0, n-1).Draw(t, "x")}
			case 1:
				return Op{O: "addn", Xs: rapid.SliceOfN(rapid.IntRange(0, n-1), 0, 60).Draw(t, "xs")}
			case 2:
				if kv {
					return Op{O: "put", X: rapid.IntRange(0, n-1).Draw(t, "x"), Y: rapid.IntRange(0, n-1).Draw(t, "y")}
				}
				return Op{O: "add", X: rapid.IntRange(0, n-1).Draw(t, "x")}
			case 3:
				return Op{O: "rem", X: rapid.IntRange(0, n-1).Draw(t, "x")}
			default:
				return Op{O: "clear"}
			}
		}), 0, 40).Draw(t, "ops")
		ops = append(ops, part...)
	}
	return ops
}

// Apply runs op on the container.
func Apply[E cmp.Ordered](h *all.H[E], d Domain[E], op Op) {
	switch op.O {
	case "add":
		h.Add(d.At(op.X))
	case "addn":
		xs := make([]E, len(op.Xs))
		for i, x := range op.Xs {
			xs[i] = d.At(x)
		}
		h.AddN(xs...)
	case "put":
		if h.PutKV != nil {
			h.PutKV(d.At(op.X), d.At(op.Y))
		} else {
			h.Add(d.At(op.X))
		}
	case "rem":
		switch {
		case h.RemKey != nil:
			h.RemKey(d.At(op.X))
		case h.RemIndex != nil:
			if n := h.Size(); n > 0 {
				h.RemIndex(((op.X % n) + n) % n)
			}
		default:
			h.Take()
		}
	case "clear":
		h.Clear()
	case "load":
		if err := h.FromJSON(LoadDoc(h.Cfg.Kind, d, op.Xs)); err != nil {
			panic("script: load of a well-formed document failed: " + err.Error())
		}
	case "badload":
		// a well-formed document whose LAST element / member value has the wrong type: the
		// load must be rejected, and (C12) nothing may have changed — the model does not move
		if doc := BadLoadDoc(h.Cfg.Kind, d, op.Xs); h.FromJSON(doc) == nil {
			panic("script: FromJSON accepted a document with a mistyped element: " + string(doc))
		}
	default:
		panic("script: bad op " + op.O)
	}
}

// BadLoadDoc is LoadDoc with one more element (member) whose value is an object.
func BadLoadDoc[E cmp.Ordered](kind string, d Domain[E], xs []int) []byte {
	doc := LoadDoc(kind, d, xs)
	sep := ","
	if len(doc) <= 2 {
		sep = ""
	}
	if all.KeyValue(kind) {
		member, err := json.Marshal(map[E]json.RawMessage{d.At(0): json.RawMessage(`{"x":[]}`)})
		if err != nil {
			panic(err)
		}
		return []byte(string(doc[:len(doc)-1]) + sep + string(member[1:len(member)-1]) + "}")
	}
	return []byte(string(doc[:len(doc)-1]) + sep + `{"x":[]}]`)
}

// LoadDoc builds the JSON document of a "load" op.
func LoadDoc[E cmp.Ordered](kind string, d Domain[E], xs []int) []byte {
	if all.KeyValue(kind) {
		m := map[E]E{}
		for _, x := range xs {
			m[d.At(x)] = d.At(x)
		}
		b, err := json.Marshal(m)
		if err != nil {
			panic(err)
		}
		return b
	}
	vals := make([]E, len(xs))
	for i, x := range xs {
		vals[i] = d.At(x)
	}
	b, err := json.Marshal(vals)
	if err != nil {
		panic(err)
	}
	return b
}

// Model is the reference state of a container after a script, per family.
// Seq is the sequence for lists / queues / stacks (removal order for stacks and
// queues, i.e. Values() order); Set/Map hold members and pairs; Order is the
// insertion order of the linked kinds (keys).
type Model[E cmp.Ordered] struct {
	Cfg       all.Cfg
	Seq       []E
	Map       map[E]E // sets: member -> member
	Order     []E
	Removals  int // effective removals / pops
	Evictions int // ring evictions, bidi displacements
	Enqueued  int // ring: enqueues since the last Clear
}

func NewModel[E cmp.Ordered](cfg all.Cfg) *Model[E] {
	return &Model[E]{Cfg: cfg, Map: map[E]E{}}
}

func (m *Model[E]) dropOrder(k E) {
	if i := slices.Index(m.Order, k); i >= 0 {
		m.Order = slices.Delete(m.Order, i, i+1)
	}
}

func (m *Model[E]) put(k, v E) {
	fam := all.Family(m.Cfg.Kind)
	if fam == "bidi" {
		for k0, v0 := range m.Map {
			if v0 == v && k0 != k {
				delete(m.Map, k0)
				m.dropOrder(k0)
				m.Evictions++
			}
		}
	}
	if _, ok := m.Map[k]; !ok {
		m.Order = append(m.Order, k)
	}
	m.Map[k] = v
}

// Apply mirrors script.Apply on the model.
func (m *Model[E]) Apply(d Domain[E], op Op) {
	fam := all.Family(m.Cfg.Kind)
	add := func(x E) {
		switch fam {
		case "list":
			m.Seq = append(m.Seq, x)
		case "stack":
			m.Seq = slices.Insert(m.Seq, 0, x)
		case "queue":
			if m.Cfg.Kind == "circularbuffer" {
				m.Enqueued++
				if len(m.Seq) == m.Cfg.Cap {
					m.Seq = m.Seq[1:]
					m.Evictions++
				}
			}
			m.Seq = append(m.Seq, x)
		case "heap":
			m.Seq = append(m.Seq, x)
		case "set":
			m.put(x, x)
		default:
			m.put(x, x)
		}
	}
	switch op.O {
	case "add":
		add(d.At(op.X))
	case "addn":
		for _, x := range op.Xs {
			add(d.At(x))
		}
	case "put":
		switch fam {
		case "map", "bidi", "tree":
			m.put(d.At(op.X), d.At(op.Y))
		default:
			add(d.At(op.X))
		}
	case "rem":
		switch fam {
		case "set", "map", "bidi", "tree":
			k := d.At(op.X)
			if _, ok := m.Map[k]; ok {
				delete(m.Map, k)
				m.dropOrder(k)
				m.Removals++
			}
		case "list":
			if n := len(m.Seq); n > 0 {
				i := ((op.X % n) + n) % n
				m.Seq = slices.Delete(m.Seq, i, i+1)
				m.Removals++
			}
		case "stack", "queue":
			if len(m.Seq) > 0 {
				m.Seq = m.Seq[1:]
				m.Removals++
			}
		case "heap":
			if len(m.Seq) > 0 {
				less := all.Comparator[E](m.Cfg.Rev)
				best := 0
				for i := range m.Seq {
					if less(m.Seq[i], m.Seq[best]) < 0 {
						best = i
					}
				}
				m.Seq = slices.Delete(m.Seq, best, best+1)
				m.Removals++
			}
		}
	case "clear":
		m.Seq, m.Map, m.Order, m.Enqueued = nil, map[E]E{}, nil, 0
	case "badload":
		// rejected: nothing changes
	case "load":
		m.Seq, m.Map, m.Order, m.Enqueued = nil, map[E]E{}, nil, 0
		switch fam {
		case "stack":
			if m.Cfg.Kind == "arraystack" { // serialised bottom-to-top
				for _, x := range op.Xs {
					m.Seq = slices.Insert(m.Seq, 0, d.At(x))
				}
			} else { // linked stack: top-to-bottom
				for _, x := range op.Xs {
					m.Seq = append(m.Seq, d.At(x))
				}
			}
		case "map", "bidi", "tree":
			// the document is an object x:x; key order of the linked map = sorted key text
			// (encoding/json writes map keys sorted), duplicates collapse
			doc := map[E]E{}
			for _, x := range op.Xs {
				doc[d.At(x)] = d.At(x)
			}
			keys := make([]E, 0, len(doc))
			for k := range doc {
				keys = append(keys, k)
			}
			slices.SortFunc(keys, func(a, b E) int { return cmp.Compare(keyText(a), keyText(b)) })
			for _, k := range keys {
				m.put(k, k)
			}
		default:
			for _, x := range op.Xs {
				add(d.At(x))
			}
		}
	}
}

// keyText is the JSON object-key text of a key (what encoding/json sorts by).
func keyText[E cmp.Ordered](k E) string {
	b, _ := json.Marshal(map[E]int{k: 0})
	dec := json.NewDecoder(bytes.NewReader(b))
	dec.Token()
	t, _ := dec.Token()
	s, _ := t.(string)
	return s
}

// Len is the number of elements the model holds.
func (m *Model[E]) Len() int {
	switch all.Family(m.Cfg.Kind) {
	case "list", "stack", "queue", "heap":
		return len(m.Seq)
	}
	return len(m.Map)
}

// GenCfg draws a configuration for a kind.
func GenCfg(t *rapid.T, kind string) all.Cfg {
	c := all.Cfg{Kind: kind}
	if all.UsesComparator(kind) {
		c.Rev = rapid.Bool().Draw(t, "rev")
	}
	if kind == "circularbuffer" {
		c.Cap = []int{1, 2, 3, 4, 5, 8}[rapid.IntRange(0, 5).Draw(t, "cap")]
	}
	if kind == "btree" {
		c.Order = []int{3, 4, 5, 6, 9}[rapid.IntRange(0, 4).Draw(t, "order")]
	}
	return c
}

// GenOps draws a state-building script of at most maxN operations over a
// domain of n elements.
func GenOps(t *rapid.T, kind string, n, maxN int) []Op {
	var ops []Op
	cnt := rapid.IntRange(0, maxN).Draw(t, "nops")
	kv := all.KeyValue(kind)
	for i := 0; i < cnt; i++ {
		switch dom.Weighted(t, "op", 1, 30, 8, 22, 25, 1, 3) {
		case 0:
		case 6:
			if !noLoad(kind, n) {
				o := "load"
				if rapid.IntRange(0, 3).Draw(t, "spoiled") == 2 {
					o = "badload"
				}
				ops = append(ops, Op{O: o, Xs: rapid.SliceOfN(rapid.IntRange(0, n-1), 0, 9).Draw(t, "doc")})
			}
		case 1:
			ops = append(ops, Op{O: "add", X: rapid.IntRange(0, n-1).Draw(t, "x")})
		case 2:
			ops = append(ops, Op{O: "addn", Xs: rapid.SliceOfN(rapid.IntRange(0, n-1), 0, 5).Draw(t, "xs")})
		case 3:
			if kv {
				ops = append(ops, Op{O: "put", X: rapid.IntRange(0, n-1).Draw(t, "x"), Y: rapid.IntRange(0, n-1).Draw(t, "y")})
			} else {
				ops = append(ops, Op{O: "add", X: rapid.IntRange(0, n-1).Draw(t, "x")})
			}
		case 4:
			ops = append(ops, Op{O: "rem", X: rapid.IntRange(0, n-1).Draw(t, "x")})
		case 5:
			ops = append(ops, Op{O: "clear"})
		}
	}
	return ops
}

// SortedBy returns xs sorted by the comparator (stable).
func SortedBy[E cmp.Ordered](less func(a, b E) int, xs []E) []E {
	out := slices.Clone(xs)
	slices.SortStableFunc(out, less)
	return out
}

// Expect is the normalised observable state the model predicts (compare with
// (*all.H).Observe via all.EqualStates).
func (m *Model[E]) Expect() all.State[E] {
	var s all.State[E]
	kind := m.Cfg.Kind
	less := all.Comparator[E](m.Cfg.Rev && all.UsesComparator(kind))
	keys := func() []E {
		ks := make([]E, 0, len(m.Map))
		for k := range m.Map {
			ks = append(ks, k)
		}
		return ks
	}
	switch all.Family(kind) {
	case "list", "queue", "stack":
		s.Values = slices.Clone(m.Seq)
		s.Size = len(m.Seq)
		if all.Family(kind) != "list" && len(m.Seq) > 0 {
			s.PeekOK, s.PeekV = true, m.Seq[0]
		}
	case "heap":
		s.Values = slices.Clone(m.Seq)
		slices.Sort(s.Values)
		s.Size = len(m.Seq)
		if len(m.Seq) > 0 {
			s.PeekOK, s.PeekV = true, SortedBy(less, m.Seq)[0]
		}
	case "set":
		s.Size = len(m.Map)
		switch kind {
		case "hashset":
			s.Values = keys()
			slices.Sort(s.Values)
		case "treeset":
			s.Values = SortedBy(less, keys())
		case "linkedhashset":
			s.Values = slices.Clone(m.Order)
		}
	default: // map, bidi, tree
		s.Size = len(m.Map)
		s.Pairs = map[E]E{}
		for k, v := range m.Map {
			s.Pairs[k] = v
		}
		switch kind {
		case "hashmap", "hashbidimap":
			s.Keys = keys()
			slices.Sort(s.Keys)
			for _, v := range m.Map {
				s.Values = append(s.Values, v)
			}
			slices.Sort(s.Values)
		case "linkedhashmap":
			s.Keys = slices.Clone(m.Order)
			for _, k := range s.Keys {
				s.Values = append(s.Values, m.Map[k])
			}
		case "treebidimap":
			s.Keys = SortedBy(less, keys())
			for _, v := range m.Map {
				s.Values = append(s.Values, v)
			}
			s.Values = SortedBy(less, s.Values)
		default:
			s.Keys = SortedBy(less, keys())
			for _, k := range s.Keys {
				s.Values = append(s.Values, m.Map[k])
			}
		}
	}
	return s
}
