#!/bin/sh
# usage: tools/verify_seed.sh <dir with patch.diff + demo_test.go> [race]
# Confirms in a scratch worktree that (1) the demo passes on the unchanged tree, (2) the patch applies and
# builds, (3) the existing suite still passes with it, (4) the demo fails with it.  Prints one verdict line.
set -u
src="$(realpath "$1")"; race="${2:-}"
wt="/tmp/vseed-$$"
git -C /repo worktree add -q --detach "$wt" HEAD || { echo "VERDICT $src: cannot create worktree"; exit 2; }
cleanup() { git -C /repo worktree remove --force "$wt" >/dev/null 2>&1; rm -rf "$wt"; }
trap cleanup EXIT INT TERM
place=$(head -1 "$src/demo_test.go" | sed -n 's|^// place in: *||p' | tr -d ' \r')
[ -n "$place" ] && [ -d "$wt/$place" ] || { echo "VERDICT $src: bad 'place in' line ($place)"; exit 2; }
flags=""; [ "$race" = "race" ] && flags="-race"
cd "$wt"
cp "$src/demo_test.go" "$wt/$place/zz_seeded_demo_test.go"
if ! go test $flags -count=1 -run 'TestSeeded' "./$place" >/tmp/vseed-base.$$ 2>&1; then echo "VERDICT $src: demo FAILS on the unchanged tree"; tail -5 /tmp/vseed-base.$$; rm -f /tmp/vseed-base.$$; exit 1; fi
rm -f /tmp/vseed-base.$$ "$wt/$place/zz_seeded_demo_test.go"
git apply "$src/patch.diff" || { echo "VERDICT $src: patch does not apply"; exit 1; }
go build ./... >/dev/null 2>&1 || { echo "VERDICT $src: does not build with the patch"; exit 1; }
if ! go test -vet=off -count=1 ./... >/tmp/vseed-suite.$$ 2>&1; then echo "VERDICT $src: existing suite FAILS with the patch"; grep -v '^ok\|no test files' /tmp/vseed-suite.$$ | head -5; rm -f /tmp/vseed-suite.$$; exit 1; fi
rm -f /tmp/vseed-suite.$$
cp "$src/demo_test.go" "$wt/$place/zz_seeded_demo_test.go"
if go test $flags -count=1 -run 'TestSeeded' "./$place" >/dev/null 2>&1; then echo "VERDICT $src: demo PASSES with the patch (change not demonstrated)"; exit 1; fi
echo "VERDICT $src: CONFIRMED (demo passes clean, fails with patch; suite passes with patch)"
exit 0
