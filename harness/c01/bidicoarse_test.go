package c01

import (
	"testing"

	"verif/harness/internal/bidicoarse"
	"verif/harness/internal/kvh"
	"verif/harness/internal/pbt"
)

// The bidirectional maps "obey the same rule": TreeBidiMap with many-to-one key
// and value comparators, with exact representatives (see internal/bidicoarse).
func TestBidiManyToOne(t *testing.T) {
	pbt.Run(t, pbt.Target[kvh.Case]{Name: "treebidimap/many-to-one-comparators", Checks: 8000, Gen: bidicoarse.Gen, Check: bidicoarse.Check})
}
