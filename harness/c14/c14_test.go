// C14 — enumerable functions agree with iteration and leave the receiver unchanged.
package c14

import (
	"encoding/json"
	"fmt"
	"reflect"
	"slices"
	"testing"

	"github.com/emirpasic/gods/v2/lists/arraylist"
	"github.com/emirpasic/gods/v2/lists/doublylinkedlist"
	"github.com/emirpasic/gods/v2/lists/singlylinkedlist"
	"github.com/emirpasic/gods/v2/maps/linkedhashmap"
	"github.com/emirpasic/gods/v2/maps/treebidimap"
	"github.com/emirpasic/gods/v2/maps/treemap"
	"github.com/emirpasic/gods/v2/sets/linkedhashset"
	"github.com/emirpasic/gods/v2/sets/treeset"
	"pgregory.net/rapid"

	"verif/harness/internal/dom"
	"verif/harness/internal/fp"
	"verif/harness/internal/kvh"
	"verif/harness/internal/pbt"
)

func TestMain(m *testing.M) { pbt.Main(m, "C14") }

// Pred: predicate on (index or key, value).
type Pred struct {
	T string `json:"t"` // true | false | vmod | kmod | kge | veq
	A int    `json:"a,omitempty"`
	B int    `json:"b,omitempty"`
}

func (p Pred) f() func(k, v int) bool {
	switch p.T {
	case "true":
		return func(int, int) bool { return true }
	case "false":
		return func(int, int) bool { return false }
	case "vmod":
		return func(_, v int) bool { return ((v%p.A)+p.A)%p.A == p.B }
	case "kmod":
		return func(k, _ int) bool { return ((k%p.A)+p.A)%p.A == p.B }
	case "kge":
		return func(k, _ int) bool { return k >= p.A }
	case "veq":
		return func(_, v int) bool { return v == p.A }
	}
	panic("bad predicate " + p.T)
}

// Mapper: (k,v) -> (k',v') with k' = (KA*k + KB*v + KC) mod KM (KM=0: no
// reduction) and likewise for v'.  Index-based kinds use only the v' part.
type Mapper struct {
	KA, KB, KC, KM int
	VA, VB, VC, VM int
}

func red(x, m int) int {
	if m <= 0 {
		return x
	}
	return ((x % m) + m) % m
}

func (m Mapper) kv(k, v int) (int, int) {
	return red(m.KA*k+m.KB*v+m.KC, m.KM), red(m.VA*v+m.VB*k+m.VC, m.VM)
}

type Case struct {
	Kind string `json:"kind"`
	Cmp  string `json:"cmp,omitempty"`
	Adds []int  `json:"adds"` // values (lists, sets) or keys (maps; value = f(key) below)
	Vals []int  `json:"vals,omitempty"`
	Rems []int  `json:"rems,omitempty"`
	P    Pred   `json:"p"`
	M    Mapper `json:"m"`
	Post []int  `json:"post"` // elements added to derived containers / receiver afterwards
	// Past: how the receiver came to hold its elements — "" built directly; "shrink"
	// (lists) many more elements were appended and removed again one by one, so that
	// a backing array has grown and shrunk; "load" (lists) the elements were loaded by
	// FromJSON over other content; "clear" other content was added and cleared first
	Past string `json:"past,omitempty"`
	// Again: after all enumerable functions were checked once, these elements (keys)
	// are added to the receiver and everything is checked a second time — anything an
	// enumerable call remembered about the receiver must not outlive the change
	Again []int `json:"again,omitempty"`
}

type pair struct{ k, v int }

// logged wraps a predicate so that the (index|key, value) pairs it is
// consulted with are recorded.  The enumerable functions are loops over the
// container's own iterator ("over that sequence"): every function must consult
// its callback with a prefix of the iterator sequence — each pair at most once,
// in iterator order — and Select / Map (which cannot stop early) with all of it.
func logged(p func(k, v int) bool, log *[]pair) func(k, v int) bool {
	return func(k, v int) bool {
		*log = append(*log, pair{k, v})
		return p(k, v)
	}
}

func prefixOf(log, seq []pair, whole bool) bool {
	if len(log) > len(seq) || whole && len(log) != len(seq) {
		return false
	}
	for i := range log {
		if log[i] != seq[i] {
			return false
		}
	}
	return true
}

// ---------------------------------------------------------------------------
// index-based kinds

type enumIdx[S any] interface {
	Each(func(int, int))
	Any(func(int, int) bool) bool
	All(func(int, int) bool) bool
	Find(func(int, int) bool) (int, int)
	Select(func(int, int) bool) S
	Map(func(int, int) int) S
	Values() []int
	Size() int
	Add(...int)
	Clear()
}

// discipline of the index-based kinds: how a container of that kind arranges a
// stream of inserted values
func arrangeIdx(kind, cmpID string, stream []int) []int {
	switch kind {
	case "treeset":
		c := dom.Cmp(cmpID)
		var out []int
		for _, x := range stream {
			if !slices.ContainsFunc(out, func(y int) bool { return c(x, y) == 0 }) {
				out = append(out, x)
			}
		}
		return dom.SortedBy(cmpID, out)
	case "linkedhashset":
		var out []int
		for _, x := range stream {
			if !slices.Contains(out, x) {
				out = append(out, x)
			}
		}
		return out
	}
	return slices.Clone(stream)
}

func eqInts(a, b []int) bool { return len(a) == 0 && len(b) == 0 || slices.Equal(a, b) }

// eqMod compares element-wise modulo the comparator: which of several
// equal-comparing values a tree-backed container keeps is not specified.
func eqMod(cmpID string, a, b []int) bool {
	if cmpID == "" {
		return eqInts(a, b)
	}
	c := dom.Cmp(cmpID)
	if len(a) != len(b) {
		return false
	}
	for i := range a {
		if c(a[i], b[i]) != 0 {
			return false
		}
	}
	return true
}

func eqPairsMod(cmpID string, a, b []pair) bool {
	if len(a) != len(b) {
		return false
	}
	c := dom.Cmp(cmpID)
	for i := range a {
		if a[i].v != b[i].v || (cmpID == "" && a[i].k != b[i].k) || (cmpID != "" && c(a[i].k, b[i].k) != 0) {
			return false
		}
	}
	return true
}

func runIdx[S enumIdx[S]](c Case, recv S, fresh func() S, it func(S) []pair) (pbt.Info, error) {
	var info pbt.Info
	seq := it(recv) // (index, value) pairs of the iterator
	vals := recv.Values()
	if len(seq) != len(vals) {
		return info, fmt.Errorf("%s: iterator yields %d elements, Values() %d", c.Kind, len(seq), len(vals))
	}
	f0 := fp.Of(recv)
	unchanged := func(what string) error {
		if g := fp.Of(recv); g != f0 {
			return fmt.Errorf("%s: %s modified the receiver: %s", c.Kind, what, fp.Diff(f0, g))
		}
		if !eqInts(recv.Values(), vals) {
			return fmt.Errorf("%s: %s changed the receiver's contents %v -> %v", c.Kind, what, vals, recv.Values())
		}
		return nil
	}
	p := c.P.f()
	// Each
	var log []pair
	recv.Each(func(i, v int) { log = append(log, pair{i, v}) })
	if !slices.Equal(log, seq) && len(log)+len(seq) > 0 {
		return info, fmt.Errorf("%s: Each visited %v, the iterator yields %v", c.Kind, log, seq)
	}
	if err := unchanged("Each"); err != nil {
		return info, err
	}
	// Any / All / Find
	wantAny, wantAll, wantI, wantV := false, true, -1, 0
	matches := 0
	for _, e := range seq {
		if p(e.k, e.v) {
			matches++
			if !wantAny {
				wantAny, wantI, wantV = true, e.k, e.v
			}
		} else {
			wantAll = false
		}
	}
	var callLog []pair
	if got := recv.Any(logged(p, &callLog)); got != wantAny {
		return info, fmt.Errorf("%s: Any(%+v)=%v over %v, want %v", c.Kind, c.P, got, seq, wantAny)
	}
	if !prefixOf(callLog, seq, false) {
		return info, fmt.Errorf("%s: Any consulted its predicate with %v, not a prefix of the iterator sequence %v", c.Kind, callLog, seq)
	}
	callLog = nil
	if got := recv.All(logged(p, &callLog)); got != wantAll {
		return info, fmt.Errorf("%s: All(%+v)=%v over %v, want %v", c.Kind, c.P, got, seq, wantAll)
	}
	if !prefixOf(callLog, seq, false) {
		return info, fmt.Errorf("%s: All consulted its predicate with %v, not a prefix of the iterator sequence %v", c.Kind, callLog, seq)
	}
	callLog = nil
	if gi, gv := recv.Find(logged(p, &callLog)); gi != wantI || gv != wantV {
		return info, fmt.Errorf("%s: Find(%+v)=(%d,%d) over %v, want (%d,%d)", c.Kind, c.P, gi, gv, seq, wantI, wantV)
	}
	if !prefixOf(callLog, seq, false) {
		return info, fmt.Errorf("%s: Find consulted its predicate with %v, not a prefix of the iterator sequence %v", c.Kind, callLog, seq)
	}
	if err := unchanged("Any/All/Find"); err != nil {
		return info, err
	}
	// callbacks see each pair once, in order, until the decision is made
	var anyLog []pair
	recv.Any(func(i, v int) bool { anyLog = append(anyLog, pair{i, v}); return false })
	if !slices.Equal(anyLog, seq) && len(anyLog)+len(seq) > 0 {
		return info, fmt.Errorf("%s: Any(false) visited %v, want %v", c.Kind, anyLog, seq)
	}
	// Select
	var selStream []int
	for _, e := range seq {
		if p(e.k, e.v) {
			selStream = append(selStream, e.v)
		}
	}
	callLog = nil
	sel := recv.Select(logged(p, &callLog))
	if !prefixOf(callLog, seq, true) {
		return info, fmt.Errorf("%s: Select consulted its predicate with %v, the iterator sequence is %v (each pair once, in order)", c.Kind, callLog, seq)
	}
	if any(sel) == any(recv) {
		return info, fmt.Errorf("%s: Select returned the receiver itself", c.Kind)
	}
	// the selected elements are the receiver's own (pairwise distinct under its
	// comparator), so the result is determined exactly
	if want := arrangeIdx(c.Kind, c.Cmp, selStream); !eqInts(sel.Values(), want) {
		return info, fmt.Errorf("%s: Select(%+v) over %v holds %v, want %v", c.Kind, c.P, seq, sel.Values(), want)
	}
	if err := unchanged("Select"); err != nil {
		return info, err
	}
	// Map
	var mapStream []int
	callLog = nil
	mapped := recv.Map(func(i, v int) int { callLog = append(callLog, pair{i, v}); _, nv := c.M.kv(i, v); return nv })
	if !prefixOf(callLog, seq, true) {
		return info, fmt.Errorf("%s: Map consulted its function with %v, the iterator sequence is %v (each pair once, in order)", c.Kind, callLog, seq)
	}
	for _, e := range seq {
		_, nv := c.M.kv(e.k, e.v)
		mapStream = append(mapStream, nv)
	}
	if any(mapped) == any(recv) {
		return info, fmt.Errorf("%s: Map returned the receiver itself", c.Kind)
	}
	if want := arrangeIdx(c.Kind, c.Cmp, mapStream); !eqMod(c.Cmp, mapped.Values(), want) {
		return info, fmt.Errorf("%s: Map(%+v) over %v holds %v, want %v (inserting %v in iteration order)", c.Kind, c.M, seq, mapped.Values(), want, mapStream)
	}
	// "built by inserting the mapped elements in iteration order": exactly what the
	// same insertions into a new container of the same configuration give (which of
	// several equal-comparing values survives included)
	ref := fresh()
	for _, x := range mapStream {
		ref.Add(x)
	}
	if !eqInts(mapped.Values(), ref.Values()) {
		return info, fmt.Errorf("%s: Map(%+v) over %v holds %v, but adding the mapped elements %v one by one to a new container gives %v", c.Kind, c.M, seq, mapped.Values(), mapStream, ref.Values())
	}
	if err := unchanged("Map"); err != nil {
		return info, err
	}
	// derived containers keep the ordering discipline for later insertions and
	// are independent of the receiver
	fs, fm := fp.Of(sel), fp.Of(mapped)
	for _, x := range c.Post {
		sel.Add(x)
		mapped.Add(x)
		selStream, mapStream = append(selStream, x), append(mapStream, x)
	}
	if want := arrangeIdx(c.Kind, c.Cmp, selStream); !eqMod(c.Cmp, sel.Values(), want) {
		return info, fmt.Errorf("%s: after adding %v to the Select result it holds %v, want %v", c.Kind, c.Post, sel.Values(), want)
	}
	if want := arrangeIdx(c.Kind, c.Cmp, mapStream); !eqMod(c.Cmp, mapped.Values(), want) {
		return info, fmt.Errorf("%s: after adding %v to the Map result it holds %v, want %v", c.Kind, c.Post, mapped.Values(), want)
	}
	for _, x := range c.Post {
		ref.Add(x)
	}
	if !eqInts(mapped.Values(), ref.Values()) {
		return info, fmt.Errorf("%s: after adding %v to the Map result it holds %v, the reference container %v", c.Kind, c.Post, mapped.Values(), ref.Values())
	}
	if err := unchanged("mutating the derived containers"); err != nil {
		return info, err
	}
	// the derived containers are sound containers of their kind: everything that can be
	// asked of them from either end answers as on a container built by plain insertions
	selRef := fresh()
	for _, x := range selStream {
		selRef.Add(x)
	}
	if err := soundAs(c.Kind+": the Select result", sel, selRef); err != nil {
		return info, err
	}
	if err := soundAs(c.Kind+": the Map result", mapped, ref); err != nil {
		return info, err
	}
	if err := unchanged("using the derived containers"); err != nil {
		return info, err
	}
	if len(c.Again) > 0 {
		recv.Add(c.Again...)
		c2 := c
		c2.Again = nil
		info2, err := runIdx(c2, recv, fresh, it)
		info2.Label("second-round")
		return info2, err
	}
	if len(c.Post) > 0 {
		fs, fm = fp.Of(sel), fp.Of(mapped)
		recv.Add(c.Post...)
		recv.Clear()
		if fp.Of(sel) != fs || fp.Of(mapped) != fm {
			return info, fmt.Errorf("%s: mutating the receiver changed a derived container", c.Kind)
		}
	}
	_, _ = fs, fm
	info.NonTrivial = len(seq) >= 3 && matches > 0 && matches < len(seq)
	classify(&info, c, len(seq), matches)
	return info, nil
}

// backward walks a container's iterator from End() with Prev(), when it can.
func backward(c any) ([]int, bool) {
	m := reflect.ValueOf(c).MethodByName("Iterator")
	if !m.IsValid() {
		return nil, false
	}
	it := m.Call(nil)[0]
	if it.Kind() != reflect.Ptr {
		p := reflect.New(it.Type())
		p.Elem().Set(it)
		it = p
	}
	end, prev, val := it.MethodByName("End"), it.MethodByName("Prev"), it.MethodByName("Value")
	if !end.IsValid() || !prev.IsValid() || !val.IsValid() {
		return nil, false
	}
	end.Call(nil)
	var out []int
	for prev.Call(nil)[0].Bool() {
		out = append(out, int(val.Call(nil)[0].Int()))
	}
	return out, true
}

type listLike interface {
	Get(int) (int, bool)
	Remove(int)
	Insert(int, ...int)
	Set(int, int)
	Values() []int
	Size() int
	Add(...int)
}

// soundAs compares a derived container with a reference container of the same kind
// that holds the same elements through plain insertions: backward iteration, and for
// the lists Get at every index and mutations reached from the tail side.  Both
// containers are modified alike.
func soundAs(what string, got, ref any) error {
	values := func(x any) []int { return x.(interface{ Values() []int }).Values() }
	if b, ok := backward(got); ok {
		want := slices.Clone(values(got))
		slices.Reverse(want)
		if !eqInts(b, want) {
			return fmt.Errorf("%s, walked backwards, yields %v; its Values() reversed are %v", what, b, want)
		}
	}
	g, ok1 := got.(listLike)
	r, ok2 := ref.(listLike)
	if !ok1 || !ok2 {
		return nil
	}
	same := func(when string) error {
		if !eqInts(g.Values(), r.Values()) || g.Size() != r.Size() {
			return fmt.Errorf("%s %s holds %v, a list built by Add holds %v", what, when, g.Values(), r.Values())
		}
		for i := -1; i <= r.Size(); i++ {
			gv, gok := g.Get(i)
			rv, rok := r.Get(i)
			if gv != rv || gok != rok {
				return fmt.Errorf("%s %s: Get(%d) = (%d,%v), a list built by Add gives (%d,%v)", what, when, i, gv, gok, rv, rok)
			}
		}
		return nil
	}
	if err := same("as returned"); err != nil {
		return err
	}
	if n := r.Size(); n >= 2 {
		g.Remove(n - 2)
		r.Remove(n - 2)
		if err := same("after Remove(size-2)"); err != nil {
			return err
		}
	}
	n := r.Size()
	g.Set(n-1, 9901)
	r.Set(n-1, 9901)
	g.Insert(max(n-1, 0), 9902, 9903)
	r.Insert(max(n-1, 0), 9902, 9903)
	if err := same("after Set(size-1) and Insert(size-1, two values)"); err != nil {
		return err
	}
	g.Remove(g.Size() - 1)
	r.Remove(r.Size() - 1)
	g.Add(9904)
	r.Add(9904)
	return same("after Remove(size-1) and Add")
}

func classify(info *pbt.Info, c Case, n, matches int) {
	switch {
	case n == 0:
		info.Label("empty")
	case matches == 0:
		info.Label("pred:matches-nothing")
	case matches == n:
		info.Label("pred:matches-everything")
	default:
		info.Label("pred:matches-some")
		if matches >= 2 {
			info.Label("pred:several-matches")
		}
	}
	if c.Cmp != "" && c.Cmp != dom.Nat {
		info.Label("cmp:" + c.Cmp)
	}
}

// ---------------------------------------------------------------------------
// key-based kinds

type enumKey[S any] interface {
	Each(func(int, int))
	Any(func(int, int) bool) bool
	All(func(int, int) bool) bool
	Find(func(int, int) bool) (int, int)
	Select(func(int, int) bool) S
	Map(func(int, int) (int, int)) S
	Keys() []int
	Values() []int
	Get(int) (int, bool)
	Put(int, int)
	Size() int
	Clear()
}

// arrangeKey feeds pairs to the kind's model in order and returns the
// resulting (key, value) sequence in the kind's enumeration order.
func arrangeKey(kind, cmpID string, stream []pair) []pair {
	switch kind {
	case "treebidimap":
		bm := kvh.NewBidiModel()
		for _, p := range stream {
			bm.Put(p.k, p.v)
		}
		var ks []int
		for k := range bm.Fwd {
			ks = append(ks, k)
		}
		var out []pair
		for _, k := range dom.SortedBy(cmpID, ks) {
			out = append(out, pair{k, bm.Fwd[k]})
		}
		return out
	case "linkedhashmap":
		var out []pair
		for _, p := range stream {
			if i := slices.IndexFunc(out, func(q pair) bool { return q.k == p.k }); i >= 0 {
				out[i].v = p.v
			} else {
				out = append(out, p)
			}
		}
		return out
	default: // treemap
		m := kvh.NewModel(cmpID)
		for _, p := range stream {
			m.Put(p.k, p.v)
		}
		var out []pair
		for _, e := range m.Sorted() {
			out = append(out, pair{e.K, e.V})
		}
		return out
	}
}

func pairsOf[S enumKey[S]](s S) []pair {
	ks := s.Keys()
	out := make([]pair, len(ks))
	for i, k := range ks {
		v, _ := s.Get(k)
		out[i] = pair{k, v}
	}
	return out
}

func runKey[S enumKey[S]](c Case, recv S, fresh func() S, it func(S) []pair) (pbt.Info, error) {
	var info pbt.Info
	seq := it(recv)
	cont := pairsOf(recv)
	if !slices.Equal(seq, cont) && len(seq)+len(cont) > 0 {
		return info, fmt.Errorf("%s: iterator yields %v, Keys()/Get give %v", c.Kind, seq, cont)
	}
	f0 := fp.Of(recv)
	unchanged := func(what string) error {
		if g := fp.Of(recv); g != f0 {
			return fmt.Errorf("%s: %s modified the receiver: %s", c.Kind, what, fp.Diff(f0, g))
		}
		if now := pairsOf(recv); !slices.Equal(now, cont) && len(now)+len(cont) > 0 {
			return fmt.Errorf("%s: %s changed the receiver's contents %v -> %v", c.Kind, what, cont, now)
		}
		return nil
	}
	p := c.P.f()
	var log []pair
	recv.Each(func(k, v int) { log = append(log, pair{k, v}) })
	if !slices.Equal(log, seq) && len(log)+len(seq) > 0 {
		return info, fmt.Errorf("%s: Each visited %v, the iterator yields %v", c.Kind, log, seq)
	}
	wantAny, wantAll, wantK, wantV := false, true, 0, 0
	matches := 0
	for _, e := range seq {
		if p(e.k, e.v) {
			matches++
			if !wantAny {
				wantAny, wantK, wantV = true, e.k, e.v
			}
		} else {
			wantAll = false
		}
	}
	var callLog []pair
	if got := recv.Any(logged(p, &callLog)); got != wantAny {
		return info, fmt.Errorf("%s: Any(%+v)=%v over %v, want %v", c.Kind, c.P, got, seq, wantAny)
	}
	if !prefixOf(callLog, seq, false) {
		return info, fmt.Errorf("%s: Any consulted its predicate with %v, not a prefix of the iterator sequence %v", c.Kind, callLog, seq)
	}
	callLog = nil
	if got := recv.All(logged(p, &callLog)); got != wantAll {
		return info, fmt.Errorf("%s: All(%+v)=%v over %v, want %v", c.Kind, c.P, got, seq, wantAll)
	}
	if !prefixOf(callLog, seq, false) {
		return info, fmt.Errorf("%s: All consulted its predicate with %v, not a prefix of the iterator sequence %v", c.Kind, callLog, seq)
	}
	callLog = nil
	if gk, gv := recv.Find(logged(p, &callLog)); gk != wantK || gv != wantV {
		return info, fmt.Errorf("%s: Find(%+v)=(%d,%d) over %v, want (%d,%d)", c.Kind, c.P, gk, gv, seq, wantK, wantV)
	}
	if !prefixOf(callLog, seq, false) {
		return info, fmt.Errorf("%s: Find consulted its predicate with %v, not a prefix of the iterator sequence %v", c.Kind, callLog, seq)
	}
	if err := unchanged("Each/Any/All/Find"); err != nil {
		return info, err
	}
	var selStream, mapStream []pair
	for _, e := range seq {
		if p(e.k, e.v) {
			selStream = append(selStream, e)
		}
		nk, nv := c.M.kv(e.k, e.v)
		mapStream = append(mapStream, pair{nk, nv})
	}
	callLog = nil
	sel := recv.Select(logged(p, &callLog))
	if !prefixOf(callLog, seq, true) {
		return info, fmt.Errorf("%s: Select consulted its predicate with %v, the iterator sequence is %v (each pair once, in order)", c.Kind, callLog, seq)
	}
	if any(sel) == any(recv) {
		return info, fmt.Errorf("%s: Select returned the receiver itself", c.Kind)
	}
	if want, got := arrangeKey(c.Kind, c.Cmp, selStream), pairsOf(sel); !slices.Equal(got, want) && len(got)+len(want) > 0 {
		return info, fmt.Errorf("%s: Select(%+v) over %v holds %v, want %v", c.Kind, c.P, seq, got, want)
	}
	if err := unchanged("Select"); err != nil {
		return info, err
	}
	callLog = nil
	mapped := recv.Map(func(k, v int) (int, int) { callLog = append(callLog, pair{k, v}); return c.M.kv(k, v) })
	if !prefixOf(callLog, seq, true) {
		return info, fmt.Errorf("%s: Map consulted its function with %v, the iterator sequence is %v (each pair once, in order)", c.Kind, callLog, seq)
	}
	if any(mapped) == any(recv) {
		return info, fmt.Errorf("%s: Map returned the receiver itself", c.Kind)
	}
	if want, got := arrangeKey(c.Kind, c.Cmp, mapStream), pairsOf(mapped); !eqPairsMod(c.Cmp, got, want) {
		return info, fmt.Errorf("%s: Map(%+v) over %v holds %v, want %v (repeated Put of %v)", c.Kind, c.M, seq, got, want, mapStream)
	}
	ref := fresh()
	for _, e := range mapStream {
		ref.Put(e.k, e.v)
	}
	if got, want := pairsOf(mapped), pairsOf(ref); !slices.Equal(got, want) && len(got)+len(want) > 0 {
		return info, fmt.Errorf("%s: Map(%+v) over %v holds %v, but putting the mapped pairs %v one by one into a new container gives %v", c.Kind, c.M, seq, got, mapStream, want)
	}
	if mapped.Size() != len(arrangeKey(c.Kind, c.Cmp, mapStream)) {
		return info, fmt.Errorf("%s: Map result Size()=%d, want %d", c.Kind, mapped.Size(), len(arrangeKey(c.Kind, c.Cmp, mapStream)))
	}
	if err := unchanged("Map"); err != nil {
		return info, err
	}
	for i, x := range c.Post {
		sel.Put(x, 1000+i)
		mapped.Put(x, 1000+i)
		selStream, mapStream = append(selStream, pair{x, 1000 + i}), append(mapStream, pair{x, 1000 + i})
	}
	if want, got := arrangeKey(c.Kind, c.Cmp, selStream), pairsOf(sel); !eqPairsMod(c.Cmp, got, want) {
		return info, fmt.Errorf("%s: after putting %v into the Select result it holds %v, want %v", c.Kind, c.Post, got, want)
	}
	if want, got := arrangeKey(c.Kind, c.Cmp, mapStream), pairsOf(mapped); !eqPairsMod(c.Cmp, got, want) {
		return info, fmt.Errorf("%s: after putting %v into the Map result it holds %v, want %v", c.Kind, c.Post, got, want)
	}
	for i, x := range c.Post {
		ref.Put(x, 1000+i)
	}
	if got, want := pairsOf(mapped), pairsOf(ref); !slices.Equal(got, want) && len(got)+len(want) > 0 {
		return info, fmt.Errorf("%s: after putting %v into the Map result it holds %v, the reference container %v", c.Kind, c.Post, got, want)
	}
	if err := unchanged("mutating the derived containers"); err != nil {
		return info, err
	}
	if len(c.Again) > 0 {
		for i, k := range c.Again {
			recv.Put(k, 700+i)
		}
		c2 := c
		c2.Again = nil
		info2, err := runKey(c2, recv, fresh, it)
		info2.Label("second-round")
		return info2, err
	}
	if len(c.Post) > 0 {
		fs, fm := fp.Of(sel), fp.Of(mapped)
		recv.Put(c.Post[0], -5)
		recv.Clear()
		if fp.Of(sel) != fs || fp.Of(mapped) != fm {
			return info, fmt.Errorf("%s: mutating the receiver changed a derived container", c.Kind)
		}
	}
	info.NonTrivial = len(seq) >= 3 && matches > 0 && matches < len(seq)
	classify(&info, c, len(seq), matches)
	return info, nil
}

// junk is the other content a receiver with a past held before.
func junk(c Case) []int {
	out := make([]int, 0, 3*len(c.Adds)+8)
	for i := 0; i < 3*len(c.Adds)+8; i++ {
		out = append(out, 9000+i*3)
	}
	return out
}

type pastList interface {
	Add(...int)
	Remove(int)
	Size() int
	Clear()
	FromJSON([]byte) error
}

// listPast brings a list that was built from c.Adds to the same contents by a detour.
func listPast(l pastList, c Case) error {
	switch c.Past {
	case "shrink":
		extra := junk(c)
		l.Add(extra...)
		for range extra {
			l.Remove(l.Size() - 1)
		}
	case "clear":
		l.Add(junk(c)...)
		l.Clear()
		l.Add(c.Adds...)
	case "load":
		l.Add(junk(c)[:5]...)
		doc, _ := json.Marshal(c.Adds)
		if c.Adds == nil {
			doc = []byte("[]")
		}
		if err := l.FromJSON(doc); err != nil {
			return fmt.Errorf("%s: FromJSON(%s) failed: %v", c.Kind, doc, err)
		}
	}
	return nil
}

func check(c Case) (pbt.Info, error) {
	cmpF := dom.Cmp(c.Cmp)
	val := func(i int) int {
		if i < len(c.Vals) {
			return c.Vals[i]
		}
		return i
	}
	switch c.Kind {
	case "arraylist":
		l := arraylist.New(c.Adds...)
		if err := listPast(l, c); err != nil {
			return pbt.Info{}, err
		}
		return runIdx(c, l, func() *arraylist.List[int] { return arraylist.New[int]() }, func(l *arraylist.List[int]) []pair {
			var out []pair
			for it := l.Iterator(); it.Next(); {
				out = append(out, pair{it.Index(), it.Value()})
			}
			return out
		})
	case "singlylinkedlist":
		l := singlylinkedlist.New(c.Adds...)
		if err := listPast(l, c); err != nil {
			return pbt.Info{}, err
		}
		return runIdx(c, l, func() *singlylinkedlist.List[int] { return singlylinkedlist.New[int]() }, func(l *singlylinkedlist.List[int]) []pair {
			var out []pair
			for it := l.Iterator(); it.Next(); {
				out = append(out, pair{it.Index(), it.Value()})
			}
			return out
		})
	case "doublylinkedlist":
		l := doublylinkedlist.New(c.Adds...)
		if err := listPast(l, c); err != nil {
			return pbt.Info{}, err
		}
		return runIdx(c, l, func() *doublylinkedlist.List[int] { return doublylinkedlist.New[int]() }, func(l *doublylinkedlist.List[int]) []pair {
			var out []pair
			it := l.Iterator()
			for it.Next() {
				out = append(out, pair{it.Index(), it.Value()})
			}
			return out
		})
	case "treeset":
		s := treeset.NewWith(cmpF)
		if c.Past == "clear" {
			s.Add(junk(c)...)
			s.Clear()
		}
		s.Add(c.Adds...)
		s.Remove(c.Rems...)
		return runIdx(c, s, func() *treeset.Set[int] { return treeset.NewWith(cmpF) }, func(s *treeset.Set[int]) []pair {
			var out []pair
			it := s.Iterator()
			for it.Next() {
				out = append(out, pair{it.Index(), it.Value()})
			}
			return out
		})
	case "linkedhashset":
		s := linkedhashset.New[int]()
		if c.Past == "clear" {
			s.Add(junk(c)...)
			s.Clear()
		}
		s.Add(c.Adds...)
		s.Remove(c.Rems...)
		return runIdx(c, s, func() *linkedhashset.Set[int] { return linkedhashset.New[int]() }, func(s *linkedhashset.Set[int]) []pair {
			var out []pair
			it := s.Iterator()
			for it.Next() {
				out = append(out, pair{it.Index(), it.Value()})
			}
			return out
		})
	case "treemap":
		m := treemap.NewWith[int, int](cmpF)
		if c.Past == "clear" {
			for i, k := range junk(c) {
				m.Put(k, 5000+i)
			}
			m.Clear()
		}
		for i, k := range c.Adds {
			m.Put(k, val(i))
		}
		for _, k := range c.Rems {
			m.Remove(k)
		}
		return runKey(c, m, func() *treemap.Map[int, int] { return treemap.NewWith[int, int](cmpF) }, func(m *treemap.Map[int, int]) []pair {
			var out []pair
			for it := m.Iterator(); it.Next(); {
				out = append(out, pair{it.Key(), it.Value()})
			}
			return out
		})
	case "linkedhashmap":
		m := linkedhashmap.New[int, int]()
		if c.Past == "clear" {
			for i, k := range junk(c) {
				m.Put(k, 5000+i)
			}
			m.Clear()
		}
		for i, k := range c.Adds {
			m.Put(k, val(i))
		}
		for _, k := range c.Rems {
			m.Remove(k)
		}
		return runKey(c, m, func() *linkedhashmap.Map[int, int] { return linkedhashmap.New[int, int]() }, func(m *linkedhashmap.Map[int, int]) []pair {
			var out []pair
			for it := m.Iterator(); it.Next(); {
				out = append(out, pair{it.Key(), it.Value()})
			}
			return out
		})
	case "treebidimap":
		m := treebidimap.NewWith[int, int](cmpF, cmpF)
		if c.Past == "clear" {
			for i, k := range junk(c) {
				m.Put(k, 5000+i)
			}
			m.Clear()
		}
		for i, k := range c.Adds {
			m.Put(k, val(i))
		}
		for _, k := range c.Rems {
			m.Remove(k)
		}
		return runKey(c, m, func() *treebidimap.Map[int, int] { return treebidimap.NewWith[int, int](cmpF, cmpF) }, func(m *treebidimap.Map[int, int]) []pair {
			var out []pair
			for it := m.Iterator(); it.Next(); {
				out = append(out, pair{it.Key(), it.Value()})
			}
			return out
		})
	}
	return pbt.Info{}, fmt.Errorf("bad kind %q", c.Kind)
}

var kinds = []string{"arraylist", "singlylinkedlist", "doublylinkedlist", "treeset", "linkedhashset", "treemap", "linkedhashmap", "treebidimap"}

func genPred(t *rapid.T) Pred {
	switch rapid.IntRange(0, 6).Draw(t, "pred") {
	case 0:
		return Pred{T: "true"}
	case 1:
		return Pred{T: "false"}
	case 2, 3:
		a := rapid.IntRange(2, 4).Draw(t, "m")
		return Pred{T: "vmod", A: a, B: rapid.IntRange(0, a-1).Draw(t, "r")}
	case 4:
		a := rapid.IntRange(2, 4).Draw(t, "m")
		return Pred{T: "kmod", A: a, B: rapid.IntRange(0, a-1).Draw(t, "r")}
	case 5:
		return Pred{T: "kge", A: rapid.IntRange(0, 8).Draw(t, "th")}
	default:
		return Pred{T: "veq", A: rapid.IntRange(0, 12).Draw(t, "x")}
	}
}

func genMapper(t *rapid.T) Mapper {
	coef := func(l string) int { return rapid.IntRange(-2, 3).Draw(t, l) }
	mod := func(l string) int { return []int{0, 0, 2, 3, 5}[rapid.IntRange(0, 4).Draw(t, l)] }
	return Mapper{KA: coef("ka"), KB: coef("kb"), KC: coef("kc"), KM: mod("km"), VA: coef("va"), VB: coef("vb"), VC: coef("vc"), VM: mod("vm")}
}

func gen(kind string) func(t *rapid.T) Case {
	return func(t *rapid.T) Case {
		c := Case{Kind: kind}
		switch kind {
		case "treeset", "treemap":
			c.Cmp = dom.AllCmps[rapid.IntRange(0, len(dom.AllCmps)-1).Draw(t, "cmp")]
		case "treebidimap":
			c.Cmp = dom.TotalCmps[rapid.IntRange(0, len(dom.TotalCmps)-1).Draw(t, "cmp")]
		}
		maxN, hi := 10, 12
		if rapid.IntRange(0, 11).Draw(t, "large") == 0 {
			maxN, hi = 90, 200 // dozens of elements
		}
		c.Adds = rapid.SliceOfN(rapid.IntRange(0, hi), 0, maxN).Draw(t, "adds")
		if rapid.IntRange(0, 399).Draw(t, "ladder") == 137 {
			// a receiver past the sizes at which an implementation may switch strategy
			n := []int{1100, 2100, 4200}[rapid.IntRange(0, 2).Draw(t, "ladder-size")]
			a, b := rapid.IntRange(0, 50).Draw(t, "ladder-a"), rapid.IntRange(1, 3).Draw(t, "ladder-b")
			for i := 0; i < n; i++ {
				c.Adds = append(c.Adds, a+i*b)
			}
		}
		switch kind {
		case "treemap", "linkedhashmap", "treebidimap":
			c.Vals = rapid.SliceOfN(rapid.IntRange(0, hi), 0, maxN).Draw(t, "vals")
		}
		if kind != "arraylist" && kind != "singlylinkedlist" && kind != "doublylinkedlist" {
			c.Rems = rapid.SliceOfN(rapid.IntRange(0, 12), 0, 2).Draw(t, "rems")
		}
		c.Past = rapid.SampledFrom([]string{"", "", "", "shrink", "load", "clear"}).Draw(t, "past")
		if rapid.IntRange(0, 2).Draw(t, "second-round") == 1 {
			c.Again = rapid.SliceOfN(rapid.IntRange(0, hi), 1, 3).Draw(t, "again")
		}
		c.P = genPred(t)
		c.M = genMapper(t)
		c.Post = rapid.SliceOfN(rapid.IntRange(-3, hi+3), 0, 3).Draw(t, "post")
		if maxN > 10 {
			c.Post = rapid.SliceOfN(rapid.IntRange(-3, hi+3), 0, 40).Draw(t, "post-many")
		}
		return c
	}
}

func TestGenerated(t *testing.T) {
	for _, kind := range kinds {
		pbt.Run(t, pbt.Target[Case]{Name: kind, Checks: 8000, Gen: gen(kind), Check: check})
	}
}
