// Package via reaches a container's (de)serialisation through each of its
// entry points: the documented FromJSON/ToJSON, the json.Unmarshaler/json.Marshaler
// methods, and encoding/json itself (json.Unmarshal(doc, container),
// json.Marshal(container)).  The properties speak of "FromJSON/json.Unmarshal"
// and "ToJSON ... identical to json.Marshal", so every entry point must behave
// alike; histories that load or dump pick the entry point by a mode number.
package via

import "encoding/json"

type In interface {
	FromJSON([]byte) error
	UnmarshalJSON([]byte) error
}

type Out interface {
	ToJSON() ([]byte, error)
	MarshalJSON() ([]byte, error)
}

// ModeName names the entry point a mode selects (for messages).
func ModeName(mode int) string {
	return []string{"FromJSON", "UnmarshalJSON", "json.Unmarshal"}[((mode%3)+3)%3]
}

// Load hands doc to the container through the entry point selected by mode.
func Load(obj In, mode int, doc []byte) error {
	switch ((mode % 3) + 3) % 3 {
	case 1:
		return obj.UnmarshalJSON(doc)
	case 2:
		return json.Unmarshal(doc, obj)
	}
	return obj.FromJSON(doc)
}

// Loader is Load curried on the container.
func Loader(obj In) func(mode int, doc []byte) error {
	return func(mode int, doc []byte) error { return Load(obj, mode, doc) }
}

// Dump serialises the container through the entry point selected by mode
// (ToJSON, MarshalJSON, json.Marshal).
func Dump(obj Out, mode int) ([]byte, error) {
	switch ((mode % 3) + 3) % 3 {
	case 1:
		return obj.MarshalJSON()
	case 2:
		return json.Marshal(obj)
	}
	return obj.ToJSON()
}

// autoMode derives the entry point from the document itself, so that a history's
// loads use all three entry points without an extra field in the case.
func autoMode(doc []byte) int {
	m := len(doc)
	if len(doc) > 0 {
		m += int(doc[len(doc)/2])
	}
	return m
}

// Auto loads doc through the entry point derived from the document.
func Auto(obj In, doc []byte) error { return Load(obj, autoMode(doc), doc) }

// AutoLoader is Auto curried on the container.
func AutoLoader(obj In) func(doc []byte) error {
	return func(doc []byte) error { return Auto(obj, doc) }
}

// AutoName names the entry point Auto uses for doc.
func AutoName(doc []byte) string { return ModeName(autoMode(doc)) }
