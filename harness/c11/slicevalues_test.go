package c11

// Key-value containers whose VALUES are slices (V = []int, K = string): the
// round trip must keep every value intact.  encoding/json decodes into existing
// storage, so a loader that reuses one value variable for several entries
// corrupts earlier values — invisible with scalar values.

import (
	"encoding/json"
	"fmt"
	"reflect"
	"slices"
	"testing"

	"github.com/emirpasic/gods/v2/maps/hashmap"
	"github.com/emirpasic/gods/v2/maps/linkedhashmap"
	"github.com/emirpasic/gods/v2/maps/treemap"
	"github.com/emirpasic/gods/v2/trees/avltree"
	"github.com/emirpasic/gods/v2/trees/btree"
	"github.com/emirpasic/gods/v2/trees/redblacktree"
	"pgregory.net/rapid"

	"verif/harness/internal/pbt"
)

type SVPut struct {
	K int   `json:"k"` // index into svKeys
	V []int `json:"v"` // the slice value (nil and empty both occur)
}

type SVCase struct {
	Kind string  `json:"kind"`
	Puts []SVPut `json:"puts"`
	Rems []int   `json:"rems,omitempty"`
}

var svKeys = []string{"a", "b", "c", "ab", "", "z\"q", "k1", "k2", "k3", "k4"}

type svMap interface {
	Put(string, []int)
	Get(string) ([]int, bool)
	Remove(string)
	Keys() []string
	Size() int
	ToJSON() ([]byte, error)
	FromJSON([]byte) error
}

func newSV(kind string) svMap {
	switch kind {
	case "hashmap":
		return hashmap.New[string, []int]()
	case "treemap":
		return treemap.New[string, []int]()
	case "linkedhashmap":
		return linkedhashmap.New[string, []int]()
	case "redblacktree":
		return redblacktree.New[string, []int]()
	case "avltree":
		return avltree.New[string, []int]()
	case "btree":
		return btree.New[string, []int](4)
	}
	panic("bad kind " + kind)
}

func checkSliceValues(c SVCase) (pbt.Info, error) {
	var info pbt.Info
	m := newSV(c.Kind)
	model := map[string][]int{}
	for _, p := range c.Puts {
		k := svKeys[p.K%len(svKeys)]
		m.Put(k, slices.Clone(p.V))
		model[k] = slices.Clone(p.V)
	}
	for _, r := range c.Rems {
		k := svKeys[r%len(svKeys)]
		m.Remove(k)
		delete(model, k)
	}
	b, err := m.ToJSON()
	if err != nil || !json.Valid(b) {
		return info, fmt.Errorf("%s[string,[]int] ToJSON: %v %q", c.Kind, err, b)
	}
	mb, err := json.Marshal(m)
	if err != nil {
		return info, fmt.Errorf("%s[string,[]int] json.Marshal failed: %v", c.Kind, err)
	}
	var x, y any
	if json.Unmarshal(b, &x) != nil || json.Unmarshal(mb, &y) != nil || !reflect.DeepEqual(x, y) {
		return info, fmt.Errorf("%s[string,[]int] ToJSON %q and json.Marshal %q denote different documents", c.Kind, b, mb)
	}
	for i, load := range []func(svMap) error{
		func(f svMap) error { return f.FromJSON(b) },
		func(f svMap) error { return json.Unmarshal(b, f) },
	} {
		how := []string{"FromJSON", "json.Unmarshal"}[i]
		f := newSV(c.Kind)
		if err := load(f); err != nil {
			return info, fmt.Errorf("%s[string,[]int] %s(own output %q) failed: %v", c.Kind, how, b, err)
		}
		if f.Size() != len(model) {
			return info, fmt.Errorf("%s[string,[]int] %s(%q): Size()=%d, original %d", c.Kind, how, b, f.Size(), len(model))
		}
		if c.Kind != "hashmap" && !slices.Equal(f.Keys(), m.Keys()) {
			return info, fmt.Errorf("%s[string,[]int] %s(%q): key order %q, original %q", c.Kind, how, b, f.Keys(), m.Keys())
		}
		ks := make([]string, 0, len(model))
		for k := range model {
			ks = append(ks, k)
		}
		slices.Sort(ks)
		for _, k := range ks {
			got, ok := f.Get(k)
			// a nil and an empty slice both serialise as null / []: compare by content
			if !ok || !slices.Equal(got, model[k]) {
				return info, fmt.Errorf("%s[string,[]int] %s(%q): value of key %q is %v, original %v", c.Kind, how, b, k, got, model[k])
			}
		}
	}
	multi := 0
	for _, v := range model {
		if len(v) >= 2 {
			multi++
		}
	}
	info.NonTrivial = len(model) >= 2 && multi >= 1
	return info, nil
}

func genSliceValues(kind string) func(t *rapid.T) SVCase {
	return func(t *rapid.T) SVCase {
		c := SVCase{Kind: kind}
		c.Puts = rapid.SliceOfN(rapid.Custom(func(t *rapid.T) SVPut {
			return SVPut{K: rapid.IntRange(0, len(svKeys)-1).Draw(t, "k"), V: rapid.SliceOfN(rapid.IntRange(-9, 99), 0, 5).Draw(t, "v")}
		}), 0, 9).Draw(t, "puts")
		c.Rems = rapid.SliceOfN(rapid.IntRange(0, len(svKeys)-1), 0, 2).Draw(t, "rems")
		return c
	}
}

func TestSliceValues(t *testing.T) {
	for _, kind := range []string{"hashmap", "treemap", "linkedhashmap", "redblacktree", "avltree", "btree"} {
		pbt.Run(t, pbt.Target[SVCase]{Name: kind + "/slice-values", Checks: 2000, Gen: genSliceValues(kind), Check: checkSliceValues})
	}
}
