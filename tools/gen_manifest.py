#!/usr/bin/env python3
"""Regenerates /verif/MANIFEST.json from the table below (kept next to the driver's props table)."""
import json, os, sys
ROOT = os.path.dirname(os.path.dirname(os.path.abspath(__file__)))

# id -> (technique, level text, level note, design ref)
X = "Exploration, not proof: the property held on every generated / enumerated case; evidence reports how many, how many were distinct and non-trivial, and samples. "
CHECKS = {
 "C01": ("model-based stateful PBT (rapid) + bounded-exhaustive permutation pairs vs comparator-aware map model",
         X + "Histories of Put/Remove/Get/Clear and runs on all 8 key-value kinds x comparator family x B-tree orders are compared with a map model after every step (touched/present/absent/just-removed Get, Size, Empty, position-aligned or multiset Keys/Values); all insertion x removal permutations of k keys enumerate every tree shape reachable that way.",
         "Trusts the map model, rapid and the comparator family (all strict weak orders); int keys/values in the model-based histories (other element types through the type-isomorphism and default-constructor targets, DESIGN §8.9-8.10); comparator-equal keys compared modulo the comparator, in the bidirectional maps additionally with exact representatives; histories include loads that must be rejected (nothing may change) and null (DESIGN §8.11).",
         "DESIGN.md §4 C01"),
 "C02": ("model-based PBT vs comparator-sorted model with probe keys between neighbours",
         X + "Ordered kinds x 5 comparators (incl. two many-to-one) x orders: Keys/Values/forward+backward iteration strictly ascending and equal to the model, least/greatest accessors, Floor/Ceiling against a model scan with exact found-flag, probes below/between/above.",
         "Trusts the sorted model; B-tree, TreeSet and TreeBidiMap have no Floor/Ceiling (enumeration and ends only); every walk is repeated with the same iterator after it ran off the end and was rewound (DESIGN §8.12).",
         "DESIGN.md §4 C02"),
 "C03": ("differential + model-based PBT: one script on three lists vs slice model, plus exhaustive index pairs",
         X + "Each script runs on ArrayList, SinglyLinkedList and DoublyLinkedList at once with wild indices, 0..4-value variadics and threshold-crossing bulk phases; Values/Size/Get/IndexOf/Contains compared with a slice model after every step; every pair of index operations at every index is enumerated for short lists.",
         "Trusts the slice model; sort stability not assumed (coarse order: validity predicate); lists of any holding unhashable values (nested arrays/objects) in a separate target (DESIGN §8.11).",
         "DESIGN.md §4 C03"),
 "C04": ("model-based PBT: one script on five set configurations vs Go-map set",
         X + "Variadic Add/Remove/Clear histories (duplicates inside a call, re-adds) on HashSet, TreeSet (natural, reversed, many-to-one) and LinkedHashSet; Contains over the whole domain, Contains(xs...), Size, Empty, duplicate-free Values after every step.",
         "Trusts the map-set model (class semantics for the many-to-one TreeSet).",
         "DESIGN.md §4 C04"),
 "C05": ("model-based PBT + bounded-exhaustive op sequences vs slice model",
         X + "Histories of Push/Pop/Peek/Enqueue/Dequeue/Clear compared step by step with a slice model (return values, Size, Empty, Values, Peek, Full, final drain); all sequences of a fixed length over {add,take,clear} for ring capacities 1..4; every (capacity,start,size) ring state up to capacity 9 visited.",
         "Trusts the slice model; capacities beyond 17 not generated.",
         "DESIGN.md §4 C05"),
 "C06": ("model-based PBT + exhaustive push orders vs exact multiset model (validity predicate, ties distinguishable)",
         X + "Single/bulk Push, Pop, Peek, Clear and FromJSON(arbitrary order) on BinaryHeap and PriorityQueue with (P,ID) items: every Pop/Peek returns a contained element nothing precedes, the multiset is exact, Values/iteration are permutations starting with the Peek element, drain non-decreasing.",
         "Heap layout and order among ties deliberately not asserted.",
         "DESIGN.md §4 C06"),
 "C07": ("PBT over structured workloads: shape invariants from exported fields + counting-comparator work bounds; exhaustive permutation pairs",
         X + "Sorted/reverse/zig-zag/random/churn/drain workloads up to thousands of keys and all small permutation pairs; after every step (n<=64) the documented shape is validated from exported fields only, and every single Put/Remove/Get is checked against the property's comparator-call bound.",
         "Colour rules not asserted (a red root satisfies C07); TreeMap/TreeSet/TreeBidiMap checked through work bounds only (their trees are unexported); TreeBidiMap bound is 4x per comparator; bystander trees of other orders and comparators live next to the tree under test and are used between its steps (DESIGN §8.13).",
         "DESIGN.md §4 C07"),
 "C08": ("model-based PBT + bounded-exhaustive call sequences vs integer cursor model, all 18 iterator types",
         X + "Scripts of Next/Prev/Begin/End/First/Last/NextTo/PrevTo on states incl. empty, single, wrapped ring, heap after pops; every call's return value and Index/Key/Value after successful moves equal a cursor over the container's own sequence; all call sequences of length 5 for n in 0..3 on every type.",
         "Nothing is read at the sentinels; no iterator use across mutations (README excludes it); the heap's Values() is itself built from its iterator, so for the heap only positions and return values are independent.",
         "DESIGN.md §4 C08"),
 "C09": ("model-based PBT + exhaustive sequences vs ordered-slice model",
         X + "Put/Add/Remove/Clear histories on LinkedHashMap/LinkedHashSet with int and string keys: Keys, Values, forward/backward iterator, Each order and indices, and ToJSON key order (token decoder) equal the insertion-order model after every step.",
         "Trusts the ordered-slice model; one long-lived iterator per container is rewound after every step; LinkedHashMap JSON order also over seven further key types (internal/keytypes, DESIGN §8.11).",
         "DESIGN.md §4 C09"),
 "C10": ("model-based PBT + exhaustive sequences vs two-map model with eviction",
         X + "Put/Remove/Clear with colliding keys and values on both bidirectional maps: Get and GetKey over the whole domain equal the model and are mutually inverse, Keys/Values are the model's sets, sizes agree, no displaced pair is returned; all sequences of length 5 over 13 operations.",
         "Two-map model with total comparators; TreeBidiMap with many-to-one comparators through a class-aware model plus exact representatives (Get and GetKey name each other exactly; DESIGN §8.11); tides target: grow, shrink, double collisions.",
         "DESIGN.md §4 C10"),
 "C11": ("round-trip PBT over all 21 kinds x configurations x int/string elements",
         X + "For states built by add/put/remove/pop/clear scripts: ToJSON valid, right top-level type, equal to json.Marshal, container unchanged; FromJSON and json.Unmarshal into fresh containers give the same observable state, iteration order, re-serialisation and Pop/Dequeue sequence.",
         "JSON-representable elements; total comparators; the eight key-value kinds also over seven further key types against encoding/json (internal/keytypes, DESIGN §8.11).",
         "DESIGN.md §4 C11"),
 "C12": ("differential PBT against encoding/json into a fresh slice/map, grammar + mutation + raw byte inputs, model-checked continuation; native fuzz target in the thorough tier",
         X + "Arbitrary prior content, then hostile inputs through FromJSON/json.Unmarshal: on error the full observable state and ToJSON are exactly as before; on success the content is exactly the reference denotation under the kind's discipline; follow-up operations and the final drain agree with the family's model.",
         "Bidi survivor among keys sharing a value and LinkedHashMap position of a repeated key left open; inputs are short; hand-made documents with hostile member names over seven further key types (internal/keytypes, DESIGN §8.11).",
         "DESIGN.md §4 C12"),
 "C13": ("model-based + metamorphic PBT with deep reflective fingerprint; exhaustive subset pairs",
         X + "Intersection/Union/Difference on HashSet/TreeSet/LinkedHashSet operands (incl. the same object, empty, nested, either size): result membership equals Go-map algebra, result is a new object, operands keep contents and fingerprint, later mutation of any of the three leaves the others unchanged, TreeSet results stay in the operands' order.",
         "TreeSet operands share one comparator function value (NewWith) or come from treeset.New and the sets the library derives from them; float64 members incl. NaN in a separate target (DESIGN §8.11).",
         "DESIGN.md §4 C13"),
 "C14": ("model-based PBT over predicate and mapper families with callback logs and fingerprints",
         X + "Each/Any/All/Find/Select/Map on the 8 enumerable kinds x comparators: callback log equals the iterator sequence, Any/All/Find equal exists/for-all/first, Select/Map equal the kind's model fed the elements in order, results are new and keep the ordering discipline, receiver keeps contents and fingerprint.",
         "Pure callbacks; Map results also compared exactly with a new container fed the mapped elements one by one (DESIGN §8.7); receivers may have a past (grown and shrunk, loaded, cleared) and are checked a second time after a mutation (DESIGN §8.11); Select/Map results are compared with a container built by plain insertions, backwards and from the tail side (DESIGN §8.12).",
         "DESIGN.md §4 C14"),
 "C15": ("reflective API-surface PBT: invariants after every exported call + cleared-vs-fresh lock-step differential",
         X + "Histories over every exported method of all 21 kinds: Empty<=>Size==0, len(Values)==len(Keys)==Size, Full<=>Size==cap, String prefix, observers leave the fingerprint; after Clear a continuation is applied in lock-step to the cleared and to a fresh container and every result and observer must agree.",
         "Map-order-dependent results normalised (see evidence assumptions).",
         "DESIGN.md §4 C15"),
 "C16": ("metamorphic aliasing PBT with spare-capacity slices and deep fingerprint",
         X + "Writes to returned Values()/Keys() slices (incl. appends into spare capacity) never reach the container; later container changes never reach earlier slices; slices passed to variadic constructors and Add/Append/Prepend/Insert/Push are copied; GetSortedValues* return sorted contents and leave contents, order, fingerprint and pop sequence intact.",
         "int elements (float64 with NaN for GetSortedValues); GetSortedValuesFunc also with comparators of magnitude 2..6 and a many-to-one order (DESIGN §8.12).",
         "DESIGN.md §4 C16"),
 "C17": ("reflective API-surface fuzzing-style PBT: every exported method with wild arguments; panic = failing case, fd 1/2 capture, watchdog",
         X + "Every exported method of all 21 containers and all iterator methods (enumerated by reflection; evidence lists them) is called with wild indices, colliding/huge elements, empty variadics, hostile JSON bytes, synthesised callbacks/comparators/peers; no panic, no byte on stdout/stderr, every case within a 60 s watchdog.",
         "Documented use only: constructor-made containers, valid configurations, fresh iterators read after successful moves, own nodes, non-nil peers, consistent comparators.",
         "DESIGN.md §4 C17"),
 "C18": ("purity PBT with deep reflective fingerprint + concurrent readers under the Go race detector (-race)",
         X + "(a) every read-only operation leaves the deep fingerprint identical and answers the same again; (b) 2..8 goroutines issue drawn read-only calls from a barrier under -race: no race report, results equal the sequential answers, fingerprint unchanged. Schedules are not enumerated; the every-interleaving claim rests on purity plus the happens-before detector.",
         "A write on a path no generated call takes is invisible; races are reported with the unshrunk case that first showed them.",
         "DESIGN.md §4 C18"),
}
NOT_YET = "check under construction in this session (not claimed yet)"

props = [json.loads(l) for l in open(os.path.join(ROOT, "properties.jsonl"))]
checks, na = [], []
for p in props:
    pid = p["id"]
    if pid in CHECKS:
        tech, text, note, ref = CHECKS[pid]
        text += " Extended after five rounds of seeded changes (DESIGN §8.5-8.10): JSON loads through all three entry points inside the histories, rewound long-lived iterators, containers with a past, further element types (float64 with NaN, any, uint8, an 80-byte struct, 13 ordered types for the default constructors), comparators with results beyond 32 bits, size ladders past 512..8192, and a replay tier of the shrunk failing cases of the seeded changes."
        ref += "; §8"
        checks.append({
            "property_id": pid,
            "quick_cmd": f"./check {pid} quick",
            "thorough_cmd": f"./check {pid} thorough",
            "evidence_file": f"/verif/evidence/{pid}.json",
            "replay_cmd_template": f"./check {pid} --replay {{path}}",
            "engine": "rapid-harness",
            "level_claimed": {"category": "exploration", "text": text, "design_ref": ref},
            "level_note": note,
            "technique": tech,
        })
    else:
        na.append({"property_id": pid, "reason": NOT_YET})
m = {
 "version": 1,
 "setup_cmd": "./check setup",
 "hooks": {
  "guard": "verif",
  "enable": "no hooks are needed: every property is observed through the exported API, reflection and the race detector; the tag `verif` is reserved and unused",
  "baseline_off_cmd": "cd /repo && go test -vet=off -count=1 ./...",
  "source_commits": [],
  "add_only": True,
 },
 "engines": [
  {"name": "rapid-harness", "path": "/verif/harness", "serves_properties": sorted(CHECKS),
   "kind_free_text": "Go test packages (one per property) using pgregory.net/rapid v1.3.0 generators, bounded-exhaustive enumerators and native go fuzzing against explicit reference models; driven by /verif/driver via /verif/check"},
 ],
 "checks": checks,
 "not_applicable": na,
 "notes": "All checks rebuild the harness against /repo's working tree (go.mod replace). Exit 0 held / 1 VIOLATION / 2 inconclusive. Genuine defects found are listed in /verif/KNOWN_FINDINGS.txt.",
}
json.dump(m, open(os.path.join(ROOT, "MANIFEST.json"), "w"), indent=1)
print("wrote MANIFEST.json with", len(checks), "checks,", len(na), "not claimed")
