package c12

// FromJSON into key-value containers whose values are slices (K = string,
// V = []int): hand-made documents with array values (also empty, null, nested
// and mistyped ones) over arbitrary prior content, against encoding/json
// decoding of the same bytes into a fresh map[string][]int.

import (
	"bytes"
	"encoding/json"
	"fmt"
	"slices"
	"strings"
	"testing"

	"github.com/emirpasic/gods/v2/maps/hashmap"
	"github.com/emirpasic/gods/v2/maps/linkedhashmap"
	"github.com/emirpasic/gods/v2/maps/treemap"
	"github.com/emirpasic/gods/v2/trees/avltree"
	"github.com/emirpasic/gods/v2/trees/btree"
	"github.com/emirpasic/gods/v2/trees/redblacktree"
	"pgregory.net/rapid"

	"verif/harness/internal/dom"
	"verif/harness/internal/pbt"
)

type SVCase struct {
	Kind  string `json:"kind"`
	Prior []int  `json:"prior"` // keys (indices) put before, each with the value [k, k+1]
	Doc   string `json:"doc"`   // the input
}

var svKeys = []string{"a", "b", "c", "ab", "", "k1", "k2", "k3"}

type svMap interface {
	Put(string, []int)
	Get(string) ([]int, bool)
	Keys() []string
	Size() int
	FromJSON([]byte) error
}

func newSV(kind string) svMap {
	switch kind {
	case "hashmap":
		return hashmap.New[string, []int]()
	case "treemap":
		return treemap.New[string, []int]()
	case "linkedhashmap":
		return linkedhashmap.New[string, []int]()
	case "redblacktree":
		return redblacktree.New[string, []int]()
	case "avltree":
		return avltree.New[string, []int]()
	case "btree":
		return btree.New[string, []int](3)
	}
	panic("bad kind " + kind)
}

func checkSV(c SVCase) (pbt.Info, error) {
	var info pbt.Info
	m := newSV(c.Kind)
	prior := map[string][]int{}
	for _, k := range c.Prior {
		key := svKeys[k%len(svKeys)]
		m.Put(key, []int{k, k + 1})
		prior[key] = []int{k, k + 1}
	}
	keysBefore := m.Keys()
	var ref map[string][]int
	refErr := json.Unmarshal([]byte(c.Doc), &ref)
	err := m.FromJSON([]byte(c.Doc))
	want := ref
	if err != nil {
		want = prior
		if c.Kind != "hashmap" && !slices.Equal(m.Keys(), keysBefore) {
			return info, fmt.Errorf("%s[string,[]int]: FromJSON(%q) failed (%v) but the keys changed %q -> %q", c.Kind, c.Doc, err, keysBefore, m.Keys())
		}
	} else if refErr != nil {
		return info, fmt.Errorf("%s[string,[]int]: FromJSON(%q) returned nil although encoding/json rejects the input (%v)", c.Kind, c.Doc, refErr)
	}
	if m.Size() != len(want) {
		return info, fmt.Errorf("%s[string,[]int]: after FromJSON(%q) [err=%v] Size()=%d, want %d", c.Kind, c.Doc, err, m.Size(), len(want))
	}
	ks := make([]string, 0, len(want))
	for k := range want {
		ks = append(ks, k)
	}
	slices.Sort(ks)
	for _, k := range ks {
		got, ok := m.Get(k)
		if !ok || !slices.Equal(got, want[k]) {
			return info, fmt.Errorf("%s[string,[]int]: after FromJSON(%q) [err=%v] key %q holds (%v,%v), want %v", c.Kind, c.Doc, err, k, got, ok, want[k])
		}
	}
	if err == nil && c.Kind == "linkedhashmap" {
		// key order = textual order of first occurrence (skipped when a key repeats)
		order, dup := objectKeyOrder([]byte(c.Doc))
		if !dup && !bytes.Equal(bytes.TrimSpace([]byte(c.Doc)), []byte("null")) && !slices.Equal(m.Keys(), order) && len(order)+len(m.Keys()) > 0 {
			return info, fmt.Errorf("linkedhashmap[string,[]int]: FromJSON(%q) gives key order %q, the document lists %q", c.Doc, m.Keys(), order)
		}
	}
	if err == nil && c.Kind != "hashmap" && c.Kind != "linkedhashmap" && !slices.Equal(m.Keys(), ks) && len(ks) > 0 {
		return info, fmt.Errorf("%s[string,[]int]: FromJSON(%q) gives keys %q, want sorted %q", c.Kind, c.Doc, m.Keys(), ks)
	}
	info.NonTrivial = len(prior) > 0 && strings.Contains(c.Doc, "[")
	return info, nil
}

func genSV(kind string) func(t *rapid.T) SVCase {
	return func(t *rapid.T) SVCase {
		c := SVCase{Kind: kind}
		c.Prior = rapid.SliceOfN(rapid.IntRange(0, len(svKeys)-1), 0, 5).Draw(t, "prior")
		var b strings.Builder
		b.WriteByte('{')
		n := rapid.IntRange(0, 6).Draw(t, "entries")
		for i := 0; i < n; i++ {
			if i > 0 {
				b.WriteByte(',')
			}
			kb, _ := json.Marshal(svKeys[rapid.IntRange(0, len(svKeys)-1).Draw(t, "k")])
			b.Write(kb)
			b.WriteByte(':')
			switch dom.Weighted(t, "val", 50, 12, 8, 5, 4, 3) {
			case 0:
				vs := rapid.SliceOfN(rapid.IntRange(-5, 50), 1, 4).Draw(t, "vs")
				vb, _ := json.Marshal(vs)
				b.Write(vb)
			case 1:
				b.WriteString("[]")
			case 2:
				b.WriteString("null")
			case 3:
				b.WriteString("[[1],2]") // nested: type error
			case 4:
				b.WriteString("7") // scalar: type error
			default:
				b.WriteString(`[1,"x"]`)
			}
		}
		b.WriteByte('}')
		c.Doc = b.String()
		switch rapid.IntRange(0, 11).Draw(t, "mut") {
		case 0:
			c.Doc = "null"
		case 1:
			if len(c.Doc) > 1 {
				c.Doc = c.Doc[:rapid.IntRange(1, len(c.Doc)-1).Draw(t, "cut")]
			}
		}
		return c
	}
}

func TestSliceValues(t *testing.T) {
	for _, kind := range []string{"hashmap", "treemap", "linkedhashmap", "redblacktree", "avltree", "btree"} {
		pbt.Run(t, pbt.Target[SVCase]{Name: kind + "/slice-values", Checks: 2500, Gen: genSV(kind), Check: checkSV})
	}
}
