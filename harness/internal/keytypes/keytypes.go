// Package keytypes instantiates the eight key-value containers over key types
// other than int and string — uint64 up to 2^64-1, int8, a named int64 and a
// named string that carry a String method, an integer type that takes over its
// own text encoding, and a struct key whose UnmarshalText normalises — and checks
// their JSON behaviour against encoding/json itself:
//
//   - what ToJSON / MarshalJSON / json.Marshal write must be valid JSON that
//     encoding/json decodes, into a fresh Go map[K]string, to exactly the live
//     pairs (C11), for LinkedHashMap with the member names in insertion order (C09);
//   - loading that text into a fresh container and into one with other prior content
//     gives the same pairs in the container's order (C11, C12);
//   - a hand-made document with hostile member names ("+7", "007", "-0", 2^63,
//     2^64, upper-case spellings that normalise to the same key, names that are not
//     a number) is either rejected, leaving the container exactly as it was, or
//     replaces the content by what encoding/json decodes the document to (C12);
//   - further Puts and Removes then behave as on the denoted content.
//
// The reference for "what a document denotes" is json.Unmarshal into a fresh
// map[K]string — never the library.
package keytypes

import (
	"bytes"
	"cmp"
	"encoding/json"
	"fmt"
	"math"
	"slices"
	"strconv"
	"strings"

	"github.com/emirpasic/gods/v2/maps/hashbidimap"
	"github.com/emirpasic/gods/v2/maps/hashmap"
	"github.com/emirpasic/gods/v2/maps/linkedhashmap"
	"github.com/emirpasic/gods/v2/maps/treebidimap"
	"github.com/emirpasic/gods/v2/maps/treemap"
	"github.com/emirpasic/gods/v2/trees/avltree"
	"github.com/emirpasic/gods/v2/trees/btree"
	"github.com/emirpasic/gods/v2/trees/redblacktree"
	"pgregory.net/rapid"

	"verif/harness/internal/pbt"
	"verif/harness/internal/via"
)

// ---- key types ---------------------------------------------------------------

// I8 is a small named integer: documents easily go out of its range.
type I8 int8

// ID is a named int64 with a String method (fmt prints "id-5", JSON must not).
type ID int64

func (i ID) String() string { return "id-" + strconv.FormatInt(int64(i), 10) }

// Name is a named string with a String method.
type Name string

func (n Name) String() string { return "Name<" + string(n) + ">" }

// Tagged is an integer kind that takes over its own text encoding ("#5").
type Tagged int

func (t Tagged) MarshalText() ([]byte, error) { return []byte("#" + strconv.Itoa(int(t))), nil }
func (t *Tagged) UnmarshalText(b []byte) error {
	s := string(b)
	if !strings.HasPrefix(s, "#") {
		return fmt.Errorf("tagged: missing # in %q", s)
	}
	n, err := strconv.Atoi(s[1:])
	if err != nil {
		return fmt.Errorf("tagged: %q is not a number", s)
	}
	*t = Tagged(n)
	return nil
}

// Fold is a struct key whose UnmarshalText normalises (lower-cases) the text, so
// several member names denote one key.
type Fold struct{ S string }

func (f Fold) MarshalText() ([]byte, error) { return []byte(f.S), nil }
func (f *Fold) UnmarshalText(b []byte) error {
	f.S = strings.ToLower(string(b))
	return nil
}

// Lower is a STRING kind whose UnmarshalText normalises: encoding/json writes the
// key as the plain string but reads member names through UnmarshalText.
type Lower string

func (l *Lower) UnmarshalText(b []byte) error {
	*l = Lower(strings.ToLower(string(b)))
	return nil
}

// ---- the uniform handle --------------------------------------------------------

type box[K comparable] interface {
	Put(K, string)
	Get(K) (string, bool)
	Remove(K)
	Keys() []K
	Values() []string
	Size() int
	Clear()
	via.In
	via.Out
}

// Kinds are the eight key-value containers.
var Kinds = []string{"hashmap", "linkedhashmap", "treemap", "redblacktree", "avltree", "btree", "hashbidimap", "treebidimap"}

func isBidi(kind string) bool   { return kind == "hashbidimap" || kind == "treebidimap" }
func isLinked(kind string) bool { return kind == "linkedhashmap" }
func isSorted(kind string) bool {
	return kind != "hashmap" && kind != "hashbidimap" && kind != "linkedhashmap"
}

func build[K comparable](kind string, order int, c func(a, b K) int) box[K] {
	switch kind {
	case "hashmap":
		return hashmap.New[K, string]()
	case "linkedhashmap":
		return linkedhashmap.New[K, string]()
	case "treemap":
		return treemap.NewWith[K, string](c)
	case "redblacktree":
		return redblacktree.NewWith[K, string](c)
	case "avltree":
		return avltree.NewWith[K, string](c)
	case "btree":
		return btree.NewWith[K, string](order, c)
	case "hashbidimap":
		return hashbidimap.New[K, string]()
	case "treebidimap":
		return treebidimap.NewWith[K, string](c, cmp.Compare[string])
	}
	panic("unknown kind " + kind)
}

// ---- per-type domains -----------------------------------------------------------

// family describes one key type: canonical keys for Put histories (a key and the
// member name encoding/json writes for it correspond one to one), member-name
// texts for hand-made documents, and a comparator.
type family[K comparable] struct {
	name  string
	keys  []K
	names []string
	cmp   func(a, b K) int
}

var famU64 = family[uint64]{
	name: "uint64",
	keys: []uint64{0, 1, 7, 10, 1 << 31, 1 << 32, math.MaxInt64, 1 << 63, 1<<63 + 1, math.MaxUint64 - 1, math.MaxUint64},
	names: []string{"0", "1", "7", "007", "+7", "-0", "10", "9223372036854775807", "9223372036854775808", "9223372036854775809",
		"18446744073709551615", "18446744073709551616", "1e2", "7.0", "", " 7", "x", "-1"},
	cmp: cmp.Compare[uint64],
}

var famI8 = family[I8]{
	name:  "int8",
	keys:  []I8{-128, -100, -7, -1, 0, 1, 7, 10, 100, 127},
	names: []string{"0", "-0", "+0", "1", "+1", "7", "007", "-7", "-007", "127", "128", "-128", "-129", "200", "1e1", "", "x", "0x10"},
	cmp:   cmp.Compare[I8],
}

var famID = family[ID]{
	name:  "named-int64+String",
	keys:  []ID{math.MinInt64, math.MinInt64 + 1, -1 << 32, -5, -1, 0, 1, 5, 1 << 32, math.MaxInt64 - 1, math.MaxInt64},
	names: []string{"0", "-0", "5", "+5", "05", "-5", "id-5", "9223372036854775807", "9223372036854775808", "-9223372036854775808", "-9223372036854775809", "4294967296", "", "5.0", "x"},
	cmp:   cmp.Compare[ID],
}

var famName = family[Name]{
	name:  "named-string+String",
	keys:  []Name{"", "a", "b", "ab", "A", "Name<a>", "1", "01", "\"", "\\", "é", "<&>", " ", "k y"},
	names: []string{"", "a", "b", "ab", "A", "Name<a>", "1", "01", "\"", "\\", "é", "<&>", " ", "k y", "a\u0000"},
	cmp:   cmp.Compare[Name],
}

var famTagged = family[Tagged]{
	name:  "int+TextMarshaler",
	keys:  []Tagged{-9, -1, 0, 1, 2, 3, 10, 11, 100, 1 << 40},
	names: []string{"#0", "#1", "#01", "#+1", "#-1", "#2", "#10", "#100", "1", "#", "", "#x", "#1099511627776", "##1"},
	cmp:   cmp.Compare[Tagged],
}

var famFold = family[Fold]{
	name:  "struct+normalising-UnmarshalText",
	keys:  []Fold{{""}, {"a"}, {"b"}, {"ab"}, {"abc"}, {"é"}, {"1"}, {"a b"}, {"\""}, {"z"}},
	names: []string{"", "a", "A", "b", "B", "ab", "AB", "Ab", "aB", "abc", "ABC", "é", "É", "1", "a b", "\"", "z", "Z"},
	cmp:   func(a, b Fold) int { return cmp.Compare(a.S, b.S) },
}

var famLower = family[Lower]{
	name:  "string+normalising-UnmarshalText",
	keys:  []Lower{"", "a", "b", "ab", "abc", "é", "1", "a b", "\"", "z"},
	names: []string{"", "a", "A", "b", "B", "ab", "AB", "Ab", "aB", "abc", "ABC", "é", "É", "1", "a b", "\"", "z", "Z"},
	cmp:   cmp.Compare[Lower],
}

// Families lists the names of the key-type families.
var Families = []string{famU64.name, famI8.name, famID.name, famName.name, famTagged.name, famFold.name, famLower.name}

// ---- case -----------------------------------------------------------------------

// Step is one operation of a history; keys are indices into the family's key pool.
type Step struct {
	Op  string `json:"op"`  // put | remove | clear
	Key int    `json:"key"` // index into the key pool
}

// Member is one member of a hand-made document.
type Member struct {
	Name  int    `json:"name"` // index into the family's name pool
	Value string `json:"value"`
	Raw   bool   `json:"raw,omitempty"` // Value is raw JSON (not a string): a type error, or null
}

// Case is one generated case.
type Case struct {
	Kind    string   `json:"kind"`
	Family  string   `json:"family"`
	Order   int      `json:"order,omitempty"` // B-tree order
	History []Step   `json:"history"`
	Prior   []Step   `json:"prior"`  // content of the second container the dump is loaded into
	Doc     []Member `json:"doc"`    // hand-made document (nil: none)
	Broken  int      `json:"broken"` // 0: well formed; 1: truncated; 2: trailing garbage; 3: an array instead of an object
	After   []Step   `json:"after"`  // follow-up operations after the load
	Mode    int      `json:"mode"`   // entry points
}

// Gen draws a case for the given kinds (nil: all) and with or without documents.
func Gen(kinds []string, docs bool) func(t *rapid.T) Case {
	if kinds == nil {
		kinds = Kinds
	}
	return func(t *rapid.T) Case {
		c := Case{Kind: rapid.SampledFrom(kinds).Draw(t, "kind"), Family: rapid.SampledFrom(Families).Draw(t, "family")}
		if c.Kind == "btree" {
			c.Order = rapid.SampledFrom([]int{3, 3, 4, 5, 8}).Draw(t, "order")
		}
		step := rapid.Custom(func(t *rapid.T) Step {
			op := "put"
			switch rapid.IntRange(0, 9).Draw(t, "op") {
			case 7, 8:
				op = "remove"
			case 9:
				if rapid.IntRange(0, 3).Draw(t, "clr") == 2 {
					op = "clear"
				}
			}
			return Step{Op: op, Key: rapid.IntRange(0, 15).Draw(t, "key")}
		})
		c.History = rapid.SliceOfN(step, 0, 14).Draw(t, "history")
		c.Prior = rapid.SliceOfN(step, 0, 6).Draw(t, "prior")
		c.After = rapid.SliceOfN(step, 0, 5).Draw(t, "after")
		c.Mode = rapid.IntRange(0, 8).Draw(t, "mode")
		if docs {
			vals := []string{"", "a", "b", "1", "7", "#1", "id-5", "A", "ab", "\"", ":", "{", "9223372036854775808"}
			member := rapid.Custom(func(t *rapid.T) Member {
				m := Member{Name: rapid.IntRange(0, 17).Draw(t, "name"), Value: rapid.SampledFrom(vals).Draw(t, "value")}
				if rapid.IntRange(0, 24).Draw(t, "raw") == 13 {
					m.Raw = true
					m.Value = rapid.SampledFrom([]string{"1", "null", "[]", "{}", "true"}).Draw(t, "rawvalue")
				}
				return m
			})
			c.Doc = rapid.SliceOfN(member, 0, 8).Draw(t, "doc")
			if c.Doc == nil {
				c.Doc = []Member{}
			}
			if rapid.IntRange(0, 19).Draw(t, "broken") == 11 {
				c.Broken = rapid.IntRange(1, 3).Draw(t, "how")
			}
		}
		return c
	}
}

// Check dispatches on the key-type family.
func Check(c Case) (pbt.Info, error) {
	switch c.Family {
	case famU64.name:
		return check(c, famU64)
	case famI8.name:
		return check(c, famI8)
	case famID.name:
		return check(c, famID)
	case famName.name:
		return check(c, famName)
	case famTagged.name:
		return check(c, famTagged)
	case famFold.name:
		return check(c, famFold)
	case famLower.name:
		return check(c, famLower)
	}
	return pbt.Info{}, fmt.Errorf("unknown family %q", c.Family)
}

// ---- model ------------------------------------------------------------------------

type model[K comparable] struct {
	m     map[K]string
	order []K // insertion order since last absent
}

func newModel[K comparable]() *model[K] { return &model[K]{m: map[K]string{}} }

func (m *model[K]) put(k K, v string) {
	if _, ok := m.m[k]; !ok {
		m.order = append(m.order, k)
	}
	m.m[k] = v
}
func (m *model[K]) remove(k K) {
	if _, ok := m.m[k]; ok {
		delete(m.m, k)
		m.order = slices.DeleteFunc(slices.Clone(m.order), func(x K) bool { return x == k })
	}
}
func (m *model[K]) clear() { m.m = map[K]string{}; m.order = nil }

// expectedKeys is the Keys() sequence the kind must show (nil for hash kinds: any order).
func (m *model[K]) expectedKeys(kind string, c func(a, b K) int) []K {
	switch {
	case isLinked(kind):
		return slices.Clone(m.order)
	case isSorted(kind):
		ks := slices.Clone(m.order)
		slices.SortFunc(ks, c)
		return ks
	}
	return nil
}

type runner[K comparable] struct {
	c       Case
	f       family[K]
	counter int
	what    string
}

func (r *runner[K]) apply(b box[K], m *model[K], steps []Step) {
	for _, s := range steps {
		k := r.f.keys[s.Key%len(r.f.keys)]
		switch s.Op {
		case "put":
			r.counter++
			v := r.f.names[(s.Key+r.counter)%len(r.f.names)] // values look like member names
			if isBidi(r.c.Kind) {
				v = fmt.Sprintf("%s~p%d", v, r.counter) // one-to-one by construction (document values end in ~<n>)
			}
			b.Put(k, v)
			m.put(k, v)
		case "remove":
			b.Remove(k)
			m.remove(k)
		case "clear":
			b.Clear()
			m.clear()
		}
	}
}

func (r *runner[K]) agree(b box[K], m *model[K], when string) error {
	desc := fmt.Sprintf("%s[%s,string]", r.c.Kind, r.f.name)
	if b.Size() != len(m.m) {
		return fmt.Errorf("%s %s: Size()=%d, expected %d pairs", desc, when, b.Size(), len(m.m))
	}
	keys := b.Keys()
	if len(keys) != len(m.m) {
		return fmt.Errorf("%s %s: Keys() has %d entries, expected %d", desc, when, len(keys), len(m.m))
	}
	if want := m.expectedKeys(r.c.Kind, r.f.cmp); want != nil {
		if !slices.Equal(keys, want) {
			return fmt.Errorf("%s %s: Keys()=%v, expected %v", desc, when, keys, want)
		}
		if r.c.Kind != "treebidimap" { // its Values() are sorted by the value comparator
			vals := b.Values()
			for i, k := range want {
				if i >= len(vals) || vals[i] != m.m[k] {
					return fmt.Errorf("%s %s: Values()=%q not aligned with Keys()=%v (expected %q at %d)", desc, when, vals, keys, m.m[k], i)
				}
			}
		}
	}
	seen := map[K]bool{}
	for _, k := range keys {
		if seen[k] {
			return fmt.Errorf("%s %s: Keys()=%v lists %v twice", desc, when, keys, k)
		}
		seen[k] = true
		if _, ok := m.m[k]; !ok {
			return fmt.Errorf("%s %s: Keys()=%v lists %v, which is not live", desc, when, keys, k)
		}
	}
	for _, k := range m.order {
		if got, ok := b.Get(k); !ok || got != m.m[k] {
			return fmt.Errorf("%s %s: Get(%v)=(%q,%v), expected (%q,true)", desc, when, k, got, ok, m.m[k])
		}
	}
	for _, k := range r.f.keys {
		if _, live := m.m[k]; !live {
			if got, ok := b.Get(k); ok {
				return fmt.Errorf("%s %s: Get(%v)=(%q,true) for a key that is not live", desc, when, k, got)
			}
		}
	}
	return nil
}

// memberNames returns the top-level member names of a JSON object, in order.
func memberNames(doc []byte) ([]string, error) {
	dec := json.NewDecoder(bytes.NewReader(doc))
	tok, err := dec.Token()
	if err != nil || tok != json.Delim('{') {
		return nil, fmt.Errorf("not an object")
	}
	var names []string
	for dec.More() {
		tok, err := dec.Token()
		if err != nil {
			return nil, err
		}
		name, ok := tok.(string)
		if !ok {
			return nil, fmt.Errorf("member name is not a string")
		}
		names = append(names, name)
		var skip json.RawMessage
		if err := dec.Decode(&skip); err != nil {
			return nil, err
		}
	}
	return names, nil
}

// nameOf is the member name encoding/json writes for key k.
func nameOf[K comparable](k K) (string, error) {
	b, err := json.Marshal(map[K]string{k: ""})
	if err != nil {
		return "", err
	}
	names, err := memberNames(b)
	if err != nil || len(names) != 1 {
		return "", fmt.Errorf("reference encoding of key %v is %s", k, b)
	}
	return names[0], nil
}

// keyOf is the key encoding/json reads from member name s.
func keyOf[K comparable](s string) (K, error) {
	var zero K
	q, _ := json.Marshal(s)
	var m map[K]json.RawMessage
	if err := json.Unmarshal([]byte("{"+string(q)+":null}"), &m); err != nil {
		return zero, err
	}
	for k := range m {
		return k, nil
	}
	return zero, fmt.Errorf("no key")
}

func check[K comparable](c Case, f family[K]) (pbt.Info, error) {
	var info pbt.Info
	r := &runner[K]{c: c, f: f}
	desc := fmt.Sprintf("%s[%s,string]", c.Kind, f.name)
	b, m := build(c.Kind, c.Order, f.cmp), newModel[K]()
	r.apply(b, m, c.History)
	if err := r.agree(b, m, "after the history"); err != nil {
		return info, err
	}

	// (1) what the container writes, through an entry point chosen by the case
	dump, err := via.Dump(b, c.Mode)
	if err != nil {
		return info, fmt.Errorf("%s: serialising failed: %v", desc, err)
	}
	if !json.Valid(dump) {
		return info, fmt.Errorf("%s: serialised form %s is not valid JSON", desc, dump)
	}
	ref := map[K]string{}
	if err := json.Unmarshal(dump, &ref); err != nil {
		return info, fmt.Errorf("%s: encoding/json cannot read the serialised form %s back into a map of the key type: %v", desc, dump, err)
	}
	if len(ref) != len(m.m) {
		return info, fmt.Errorf("%s: serialised form %s denotes %d pairs, the container holds %d", desc, dump, len(ref), len(m.m))
	}
	for _, k := range m.order {
		if got, ok := ref[k]; !ok || got != m.m[k] {
			return info, fmt.Errorf("%s: serialised form %s denotes (%q,%v) for key %v, the container holds %q", desc, dump, got, ok, k, m.m[k])
		}
	}
	names, err := memberNames(dump)
	if err != nil {
		return info, fmt.Errorf("%s: serialised form %s: %v", desc, dump, err)
	}
	if len(names) != len(m.m) {
		return info, fmt.Errorf("%s: serialised form %s has %d members for %d pairs", desc, dump, len(names), len(m.m))
	}
	wantNames := map[string]bool{}
	for _, k := range m.order {
		n, err := nameOf(k)
		if err != nil {
			return info, fmt.Errorf("bad case: %v", err)
		}
		wantNames[n] = true
	}
	for _, n := range names {
		if !wantNames[n] {
			return info, fmt.Errorf("%s: serialised form %s has member name %q, json.Marshal of a Go map with the same keys never writes it", desc, dump, n)
		}
	}
	if isLinked(c.Kind) {
		for i, k := range m.order {
			n, _ := nameOf(k)
			if names[i] != n {
				return info, fmt.Errorf("%s: serialised form %s lists member %d as %q, insertion order has key %v (%q) there", desc, dump, i, names[i], k, n)
			}
		}
	}
	// all entry points write the same (up to member order for the unordered kinds)
	other, err := via.Dump(b, c.Mode+1)
	if err != nil {
		return info, fmt.Errorf("%s: serialising through %d failed: %v", desc, c.Mode+1, err)
	}
	if isLinked(c.Kind) && !bytes.Equal(dump, other) {
		return info, fmt.Errorf("%s: two entry points serialise differently: %s vs %s", desc, dump, other)
	}
	if err := r.agree(b, m, "after serialising"); err != nil {
		return info, err
	}

	// (2) loading it into a fresh container and into one with other content
	fresh := build(c.Kind, c.Order, f.cmp)
	if err := via.Load(fresh, c.Mode/3, dump); err != nil {
		return info, fmt.Errorf("%s: loading its own serialised form %s into a fresh container failed: %v", desc, dump, err)
	}
	if err := r.agree(fresh, m, fmt.Sprintf("fresh container after loading %s", dump)); err != nil {
		return info, err
	}
	used, um := build(c.Kind, c.Order, f.cmp), newModel[K]()
	r.apply(used, um, c.Prior)
	if err := via.Load(used, c.Mode/3+1, dump); err != nil {
		return info, fmt.Errorf("%s: loading %s into a used container failed: %v", desc, dump, err)
	}
	if err := r.agree(used, m, fmt.Sprintf("used container (%d pairs before) after loading %s", len(um.m), dump)); err != nil {
		return info, err
	}
	info.NonTrivial = len(m.m) >= 2
	info.Label("family:" + f.name)

	// (3) a hand-made document over the container's content
	if c.Doc != nil {
		var sb strings.Builder
		sb.WriteString("{")
		for i, mem := range c.Doc {
			if i > 0 {
				sb.WriteString(",")
			}
			q, _ := json.Marshal(f.names[mem.Name%len(f.names)])
			sb.Write(q)
			sb.WriteString(":")
			if mem.Raw {
				sb.WriteString(mem.Value)
			} else {
				v := mem.Value
				if isBidi(c.Kind) {
					v = fmt.Sprintf("%s~%d", v, i)
				}
				qv, _ := json.Marshal(v)
				sb.Write(qv)
			}
		}
		sb.WriteString("}")
		doc := sb.String()
		switch c.Broken {
		case 1:
			doc = doc[:len(doc)-1]
		case 2:
			doc += "}"
		case 3:
			doc = "[" + doc + "]"
		}
		want := map[K]string{}
		refErr := json.Unmarshal([]byte(doc), &want)
		loadErr := via.Load(b, c.Mode/3+2, []byte(doc))
		entry := via.ModeName(c.Mode/3 + 2)
		if refErr != nil {
			info.Label("doc:rejected")
			if loadErr == nil {
				return info, fmt.Errorf("%s: %s(%s) succeeded, encoding/json rejects the document for this key type: %v", desc, entry, doc, refErr)
			}
			if err := r.agree(b, m, fmt.Sprintf("after %s(%s) returned an error", entry, doc)); err != nil {
				return info, err
			}
		} else {
			if loadErr != nil {
				return info, fmt.Errorf("%s: %s(%s) failed (%v), encoding/json accepts the document for this key type", desc, entry, doc, loadErr)
			}
			if isBidi(c.Kind) {
				vs := map[string]bool{}
				for _, v := range want {
					if vs[v] {
						// two keys with one value (only possible through null): which pair survives is up to Go's map order
						info.Label("doc:bidi-many-to-one")
						return info, nil
					}
					vs[v] = true
				}
			}
			// the denoted content; the order of first appearance of the denoted keys
			dm := newModel[K]()
			docNames, _ := memberNames([]byte(doc))
			repeated := false
			for _, n := range docNames {
				k, err := keyOf[K](n)
				if err != nil {
					return info, fmt.Errorf("bad case: member name %q accepted in a document but not alone: %v", n, err)
				}
				if _, ok := dm.m[k]; ok {
					repeated = true
				}
				dm.put(k, want[k])
			}
			if len(dm.m) != len(want) {
				return info, fmt.Errorf("bad case: reference decodings disagree on %s", doc)
			}
			if repeated && isLinked(c.Kind) {
				// several names denote one key: the property does not say which place it takes
				if err := r.agree(b, &model[K]{m: dm.m, order: b.Keys()}, fmt.Sprintf("after %s(%s)", entry, doc)); err != nil {
					return info, err
				}
				dm.order = b.Keys()
				info.Label("doc:repeated-key")
			} else if err := r.agree(b, dm, fmt.Sprintf("after %s(%s)", entry, doc)); err != nil {
				return info, err
			}
			m = dm
			info.Label("doc:accepted")
			if len(want) >= 2 {
				info.Label("doc:accepted>=2")
			}
		}
		// (4) the container stays sound
		r.apply(b, m, c.After)
		if err := r.agree(b, m, fmt.Sprintf("after loading %s and %d further operations", doc, len(c.After))); err != nil {
			return info, err
		}
		info.NonTrivial = len(c.Doc) >= 2 && len(c.History) > 0
	}
	return info, nil
}
