#!/usr/bin/env python3
"""Validates MANIFEST.json and every evidence file against the schemas in /root/.vp (run with python3-vt)."""
import json, glob, sys, jsonschema
ms = json.load(open('/root/.vp/MANIFEST.schema.json')); es = json.load(open('/root/.vp/EVIDENCE.schema.json'))
m = json.load(open('/verif/MANIFEST.json')); jsonschema.validate(m, ms)
ok = True
for c in m['checks']:
    try:
        e = json.load(open(c['evidence_file'])); jsonschema.validate(e, es)
        assert e['property_id'] == c['property_id']
        print(c['property_id'], e['tier'], e['coverage']['evaluations'], e['coverage']['distinct_nontrivial'], len(e['coverage']['samples']), 'samples', e['wall_s'], 's', 'violations', e.get('violations'))
    except Exception as ex:
        ok = False; print('INVALID', c['property_id'], ex)
sys.exit(0 if ok else 1)
