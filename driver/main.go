// Command driver runs one property check: it rebuilds the property's test binary
// against /repo's working tree, runs it in shards, merges the statistics, writes
// /verif/evidence/<id>.json and prints VIOLATION / KNOWN-FINDING lines.
//
// Exit codes: 0 held on everything explored; 1 violation; 2 inconclusive
// (build failure, timeout, worker death) — never reported as a violation.
package main

import (
	"bytes"
	"encoding/binary"
	"encoding/json"
	"fmt"
	"os"
	"os/exec"
	"path/filepath"
	"sort"
	"strconv"
	"strings"
	"sync"
	"time"
)

type tierCfg struct {
	Shards  int
	Scale   float64
	Timeout time.Duration
}

type propCfg struct {
	ID       string
	Pkg      string // directory under harness/
	Race     bool
	Quick    tierCfg
	Thorough tierCfg
	Rule     string
	Assume   []string
	// FuzzTargets are native fuzz functions run (thorough tier only) for FuzzTime each.
	FuzzTargets []string
	FuzzTime    time.Duration
	// CrashIsViolation: an unrecoverable crash / watchdog expiry of the test
	// process is a violation of this property (C17 only).
	CrashIsViolation bool
}

var root = envOr("VERIF_ROOT", "/verif")

// workDir holds build output and per-run scratch files (default <root>/.work).
// repoDir is the library tree the harness is built against (default /repo, via
// the replace directive of harness/go.mod); VERIF_REPO points the same harness
// at a scratch copy instead (used only to try seeded changes without touching /repo).
var (
	workDir = envOr("VERIF_WORKDIR", filepath.Join(root, ".work"))
	repoDir = os.Getenv("VERIF_REPO")
)

// altModfile writes a copy of harness/go.mod whose replace directive points to
// repoDir and returns the -modfile argument ("" when the default /repo is used).
func altModfile() (string, error) {
	if repoDir == "" || repoDir == "/repo" {
		return "", nil
	}
	src, err := os.ReadFile(filepath.Join(root, "harness", "go.mod"))
	if err != nil {
		return "", err
	}
	dir := filepath.Join(workDir, "altmod")
	if err := os.MkdirAll(dir, 0o755); err != nil {
		return "", err
	}
	mod := strings.Replace(string(src), "=> /repo", "=> "+repoDir, 1)
	if err := os.WriteFile(filepath.Join(dir, "go.mod"), []byte(mod), 0o644); err != nil {
		return "", err
	}
	sum, _ := os.ReadFile(filepath.Join(root, "harness", "go.sum"))
	_ = os.WriteFile(filepath.Join(dir, "go.sum"), sum, 0o644)
	return "-modfile=" + filepath.Join(dir, "go.mod"), nil
}

func envOr(k, d string) string {
	if v := os.Getenv(k); v != "" {
		return v
	}
	return d
}

func splitmix(x uint64) uint64 {
	x += 0x9e3779b97f4a7c15
	x = (x ^ (x >> 30)) * 0xbf58476d1ce4e5b9
	x = (x ^ (x >> 27)) * 0x94d049bb133111eb
	return x ^ (x >> 31)
}

func goEnv() []string {
	env := os.Environ()
	env = append(env, "GOFLAGS=-mod=mod", "GOPROXY=off", "GOSUMDB=off", "GOTOOLCHAIN=local", "VERIF_ROOT="+root)
	return env
}

func usage() {
	fmt.Fprintln(os.Stderr, "usage: check <id>|all [quick|thorough] [--replay <file>] | check setup | check list")
	os.Exit(2)
}

func main() {
	args := os.Args[1:]
	if len(args) == 0 {
		usage()
	}
	switch args[0] {
	case "setup":
		os.Exit(setup())
	case "list":
		for _, p := range props {
			fmt.Println(p.ID, p.Pkg)
		}
		return
	}
	id := args[0]
	tier := envOr("VERIF_TIER", "quick")
	replay := ""
	for i := 1; i < len(args); i++ {
		switch args[i] {
		case "quick", "thorough":
			tier = args[i]
		case "--tier":
			i++
			tier = args[i]
		case "--replay":
			i++
			replay = args[i]
		default:
			usage()
		}
	}
	if id == "all" {
		worst := 0
		for _, p := range props {
			c := runProp(p, tier, "")
			if c > worst {
				worst = c
			}
		}
		os.Exit(worst)
	}
	for _, p := range props {
		if strings.EqualFold(p.ID, id) {
			os.Exit(runProp(p, tier, replay))
		}
	}
	fmt.Fprintln(os.Stderr, "unknown property", id)
	os.Exit(2)
}

func setup() int {
	// build every test binary once so that later runs hit the build cache
	code := 0
	var wg sync.WaitGroup
	sem := make(chan struct{}, 6)
	var mu sync.Mutex
	for _, p := range props {
		wg.Add(1)
		go func(p propCfg) {
			defer wg.Done()
			sem <- struct{}{}
			defer func() { <-sem }()
			if _, err := build(p); err != nil {
				mu.Lock()
				fmt.Fprintf(os.Stderr, "setup: build %s failed: %v\n", p.ID, err)
				code = 1
				mu.Unlock()
			}
		}(p)
	}
	wg.Wait()
	if code == 0 {
		fmt.Println("setup ok")
	}
	return code
}

func build(p propCfg) (string, error) {
	bin := filepath.Join(workDir, "bin", p.ID+".test")
	_ = os.MkdirAll(filepath.Dir(bin), 0o755)
	args := []string{"test", "-c", "-vet=off", "-o", bin}
	mf, err := altModfile()
	if err != nil {
		return "", err
	}
	if mf != "" {
		args = append(args, mf)
	}
	if p.Race {
		args = append(args, "-race")
	}
	args = append(args, "./"+p.Pkg)
	cmd := exec.Command("go", args...)
	cmd.Dir = filepath.Join(root, "harness")
	cmd.Env = goEnv()
	var buf bytes.Buffer
	cmd.Stdout, cmd.Stderr = &buf, &buf
	if err := cmd.Run(); err != nil {
		return "", fmt.Errorf("%v\n%s", err, buf.String())
	}
	return bin, nil
}

// ---- statistics produced by the test binaries (mirror of pbt.Output) ----

type sample struct {
	Target string          `json:"target"`
	Why    string          `json:"why"`
	Case   json.RawMessage `json:"case"`
}
type targetStats struct {
	Evaluations int64            `json:"evaluations"`
	NonTrivial  int64            `json:"nontrivial"`
	Regressions int64            `json:"regressions"`
	Exhaustive  int64            `json:"exhaustive_cases"`
	ExhNote     string           `json:"exhaustive_note,omitempty"`
	Labels      map[string]int64 `json:"labels,omitempty"`
	Samples     []sample         `json:"samples,omitempty"`
	WallS       float64          `json:"wall_s"`
}
type violation struct {
	Target  string `json:"target"`
	Replay  string `json:"replay"`
	Message string `json:"message"`
	Key     string `json:"key,omitempty"`
	Source  string `json:"source"`
}
type shardOut struct {
	Property   string                  `json:"property"`
	Targets    map[string]*targetStats `json:"targets"`
	Violations []violation             `json:"violations"`
	Extra      map[string]any          `json:"extra,omitempty"`
	Sets       map[string][]string     `json:"sets,omitempty"`
	Max        map[string]float64      `json:"max,omitempty"`
	Completed  bool                    `json:"completed"`
}

type known struct {
	Prop, Key, Text string
}

func loadKnown() []known {
	b, err := os.ReadFile(filepath.Join(root, "KNOWN_FINDINGS.txt"))
	if err != nil {
		return nil
	}
	var ks []known
	for _, line := range strings.Split(string(b), "\n") {
		line = strings.TrimSpace(line)
		if !strings.HasPrefix(line, "known:") {
			continue
		}
		k := known{Text: strings.TrimSpace(strings.TrimPrefix(line, "known:"))}
		for _, f := range strings.Fields(line) {
			if strings.HasPrefix(f, "property=") {
				k.Prop = strings.TrimPrefix(f, "property=")
			}
			if strings.HasPrefix(f, "key=") {
				k.Key = strings.TrimPrefix(f, "key=")
			}
		}
		if k.Prop != "" && k.Key != "" {
			ks = append(ks, k)
		}
	}
	return ks
}

func runProp(p propCfg, tier, replay string) int {
	start := time.Now()
	cfg := p.Quick
	if tier == "thorough" {
		cfg = p.Thorough
	}
	seed := uint64(1)
	if v := os.Getenv("VERIF_SEED"); v != "" {
		if n, err := strconv.ParseInt(v, 10, 64); err == nil {
			seed = uint64(n)
		}
	}
	if s := os.Getenv("VERIF_SHARDS_OVERRIDE"); s != "" {
		if n, err := strconv.Atoi(s); err == nil && n > 0 {
			cfg.Shards = n
		}
	}
	if s := os.Getenv("VERIF_SCALE_OVERRIDE"); s != "" {
		if f, err := strconv.ParseFloat(s, 64); err == nil && f > 0 {
			cfg.Scale = f
		}
	}

	bin, err := build(p)
	if err != nil {
		fmt.Fprintf(os.Stderr, "INCONCLUSIVE property=%s build failed:\n%v\n", p.ID, err)
		return 2
	}

	work := filepath.Join(workDir, "out", p.ID)
	_ = os.RemoveAll(work)
	_ = os.MkdirAll(work, 0o755)

	if replay != "" {
		abs, _ := filepath.Abs(replay)
		cmd := exec.Command(bin, "-test.v", "-test.timeout=10m")
		cmd.Dir = work
		cmd.Env = append(goEnv(), "VERIF_REPLAY="+abs, "VERIF_TIER="+tier, "VERIF_OUT="+filepath.Join(work, "replay.json"))
		outb, _ := cmd.CombinedOutput()
		var so shardOut
		if b, err := os.ReadFile(filepath.Join(work, "replay.json")); err == nil {
			_ = json.Unmarshal(b, &so)
		}
		if len(so.Violations) > 0 {
			for _, v := range so.Violations {
				fmt.Printf("VIOLATION property=%s replay=%s\n  %s: %s\n", p.ID, abs, v.Target, v.Message)
			}
			return 1
		}
		if !so.Completed {
			fmt.Fprintf(os.Stderr, "INCONCLUSIVE property=%s replay did not complete\n%s\n", p.ID, tail(string(outb), 40))
			if p.CrashIsViolation {
				fmt.Printf("VIOLATION property=%s replay=%s\n  process died while replaying\n", p.ID, abs)
				return 1
			}
			return 2
		}
		fmt.Printf("replay passes: property=%s file=%s\n", p.ID, abs)
		return 0
	}

	type res struct {
		idx  int
		err  error
		log  string
		out  shardOut
		have bool
	}
	results := make([]res, cfg.Shards)
	var wg sync.WaitGroup
	for i := 0; i < cfg.Shards; i++ {
		wg.Add(1)
		go func(i int) {
			defer wg.Done()
			sseed := splitmix(seed*1000003 + uint64(i))
			if sseed == 0 {
				sseed = 1
			}
			outFile := filepath.Join(work, fmt.Sprintf("shard-%d.json", i))
			logFile := filepath.Join(work, fmt.Sprintf("shard-%d.log", i))
			sdir := filepath.Join(work, fmt.Sprintf("run-%d", i))
			_ = os.MkdirAll(sdir, 0o755)
			cmd := exec.Command(bin, "-test.timeout="+cfg.Timeout.String(), "-test.v=false")
			cmd.Dir = sdir
			cmd.Env = append(goEnv(),
				"VERIF_TIER="+tier,
				"VERIF_SHARD="+strconv.Itoa(i),
				"VERIF_SHARDS="+strconv.Itoa(cfg.Shards),
				"VERIF_SHARD_SEED="+strconv.FormatUint(sseed, 10),
				"VERIF_SCALE="+strconv.FormatFloat(cfg.Scale, 'g', -1, 64),
				"VERIF_OUT="+outFile,
				"VERIF_WORK="+sdir,
			)
			lf, _ := os.Create(logFile)
			cmd.Stdout, cmd.Stderr = lf, lf
			err := cmd.Run()
			lf.Close()
			r := res{idx: i, err: err}
			if b, e := os.ReadFile(outFile); e == nil {
				if json.Unmarshal(b, &r.out) == nil {
					r.have = true
				}
			}
			lb, _ := os.ReadFile(logFile)
			r.log = string(lb)
			results[i] = r
		}(i)
	}
	wg.Wait()

	// ---- merge ----
	merged := map[string]*targetStats{}
	var viols []violation
	extra := map[string]any{}
	distinct := map[uint64]struct{}{}
	setUnion := map[string]map[string]struct{}{}
	inconclusive := []string{}
	crashed := []res{}
	for _, r := range results {
		if !r.have || !r.out.Completed {
			crashed = append(crashed, r)
			if !r.have {
				continue
			}
		}
		for name, ts := range r.out.Targets {
			m := merged[name]
			if m == nil {
				m = &targetStats{Labels: map[string]int64{}}
				merged[name] = m
			}
			m.Evaluations += ts.Evaluations
			m.NonTrivial += ts.NonTrivial
			m.Regressions += ts.Regressions
			m.Exhaustive += ts.Exhaustive
			if ts.ExhNote != "" {
				m.ExhNote = ts.ExhNote
			}
			m.WallS += ts.WallS
			for l, n := range ts.Labels {
				m.Labels[l] += n
			}
			if len(m.Samples) < 3 {
				for _, s := range ts.Samples {
					if len(m.Samples) < 3 {
						m.Samples = append(m.Samples, s)
					}
				}
			}
		}
		viols = append(viols, r.out.Violations...)
		for k, v := range r.out.Max {
			if cur, ok := extra["max:"+k].(float64); !ok || v > cur {
				extra["max:"+k] = round3(v)
			}
		}
		for name, items := range r.out.Sets {
			m := setUnion[name]
			if m == nil {
				m = map[string]struct{}{}
				setUnion[name] = m
			}
			for _, it := range items {
				m[it] = struct{}{}
			}
		}
		for k, v := range r.out.Extra {
			if r.idx == 0 {
				extra[k] = v
			} else {
				extra[fmt.Sprintf("%s@shard%d", k, r.idx)] = v
			}
		}
		if hb, e := os.ReadFile(filepath.Join(work, fmt.Sprintf("shard-%d.json.hashes", r.idx))); e == nil {
			for j := 0; j+8 <= len(hb); j += 8 {
				distinct[binary.LittleEndian.Uint64(hb[j:])] = struct{}{}
			}
		}
	}

	// ---- native fuzzing (thorough tier) ----
	fuzzNotes := []string{}
	if tier == "thorough" && len(viols) == 0 {
		for _, ft := range p.FuzzTargets {
			note, v := runFuzz(p, ft, work)
			fuzzNotes = append(fuzzNotes, note)
			if v != nil {
				viols = append(viols, *v)
			}
		}
	}

	// ---- classify violations ----
	knowns := loadKnown()
	exit := 0
	realViol := 0
	printedKnown := map[string]bool{}
	for _, v := range viols {
		if v.Source == "harness" {
			inconclusive = append(inconclusive, v.Target+": "+v.Message)
			continue
		}
		isKnown := false
		for _, k := range knowns {
			if k.Prop == p.ID && v.Key != "" && k.Key == v.Key {
				isKnown = true
				if !printedKnown[k.Key] {
					fmt.Printf("KNOWN-FINDING: property=%s %s\n", p.ID, k.Text)
					printedKnown[k.Key] = true
				}
			}
		}
		if isKnown {
			continue
		}
		realViol++
		fmt.Printf("VIOLATION property=%s replay=%s\n  [%s/%s] %s\n", p.ID, v.Replay, v.Target, v.Source, v.Message)
		exit = 1
	}
	for _, r := range crashed {
		if p.CrashIsViolation && !strings.Contains(r.log, "test timed out") {
			// the test binary leaves the in-flight case behind
			cur := filepath.Join(work, fmt.Sprintf("run-%d", r.idx), "current-case.json")
			if st, e := os.Stat(cur); e == nil && st.Size() > 0 {
				dst := filepath.Join(root, "replays", p.ID, fmt.Sprintf("crash-shard%d.json", r.idx))
				_ = os.MkdirAll(filepath.Dir(dst), 0o755)
				b, _ := os.ReadFile(cur)
				_ = os.WriteFile(dst, b, 0o644)
				fmt.Printf("VIOLATION property=%s replay=%s\n  test process died or hung (unrecoverable crash / non-termination); log tail:\n%s\n", p.ID, dst, indent(tail(r.log, 25)))
				realViol++
				exit = 1
				continue
			}
		}
		inconclusive = append(inconclusive, fmt.Sprintf("shard %d did not complete (%v)", r.idx, r.err))
		fmt.Fprintf(os.Stderr, "shard %d did not complete: %v\n%s\n", r.idx, r.err, indent(tail(r.log, 30)))
	}
	// a shard that exits non-zero although it recorded no violation is a harness problem
	for _, r := range results {
		if r.err != nil && r.have && r.out.Completed && len(r.out.Violations) == 0 {
			inconclusive = append(inconclusive, fmt.Sprintf("shard %d exited with %v without recording a violation", r.idx, r.err))
			fmt.Fprintf(os.Stderr, "shard %d: %v\n%s\n", r.idx, r.err, indent(tail(r.log, 30)))
		}
	}
	if exit == 0 && len(inconclusive) > 0 {
		exit = 2
	}

	// ---- evidence ----
	var evals, exhCases, exhNT int64
	names := make([]string, 0, len(merged))
	for n := range merged {
		names = append(names, n)
	}
	sort.Strings(names)
	perTarget := map[string]any{}
	samples := []any{}
	exhNotes := []string{}
	labels := map[string]int64{}
	for _, n := range names {
		m := merged[n]
		evals += m.Evaluations
		if m.Exhaustive > 0 {
			exhCases += m.Exhaustive
			exhNT += m.NonTrivial
			exhNotes = append(exhNotes, fmt.Sprintf("%s: %s (%d cases)", n, m.ExhNote, m.Exhaustive))
		}
		perTarget[n] = map[string]any{
			"evaluations": m.Evaluations, "nontrivial": m.NonTrivial, "regression_cases": m.Regressions,
			"exhaustive_cases": m.Exhaustive, "cpu_s": round2(m.WallS),
		}
		for l, c := range m.Labels {
			labels[n+"/"+l] = c
		}
		for i, s := range m.Samples {
			if i < 2 {
				samples = append(samples, s)
			}
		}
	}
	dn := int64(len(distinct)) + exhNT
	cov := map[string]any{
		"evaluations":         evals,
		"distinct_nontrivial": dn,
		"rule":                p.Rule,
		"samples":             samples,
		"per_target":          perTarget,
		"labels":              labels,
		"shards":              cfg.Shards,
		"scale":               cfg.Scale,
		"exhaustive":          false,
	}
	if len(exhNotes) > 0 {
		cov["exhaustive_subspaces"] = exhNotes
		cov["distinct_nontrivial_note"] = "hash-distinct generated cases plus enumerated cases (distinct by construction); the same logical case reached by two targets counts once per target"
	}
	for name, m := range setUnion {
		groups := map[string]int{}
		for it := range m {
			g := it
			if i := strings.IndexByte(it, '|'); i >= 0 {
				g = it[:i]
			} else {
				g = "all"
			}
			groups[g]++
		}
		entry := map[string]any{"distinct": len(m), "by_group": groups}
		if len(m) <= 80 {
			l := make([]string, 0, len(m))
			for it := range m {
				l = append(l, it)
			}
			sort.Strings(l)
			entry["items"] = l
		}
		extra["set:"+name] = entry
	}
	if len(extra) > 0 {
		cov["extra"] = extra
	}
	if len(fuzzNotes) > 0 {
		cov["native_fuzz"] = fuzzNotes
	}
	if len(inconclusive) > 0 {
		cov["inconclusive"] = inconclusive
	}
	ev := map[string]any{
		"property_id": p.ID,
		"tier":        tier,
		"seed":        int64(seed),
		"level":       "exploration",
		"coverage":    cov,
		"assumptions": p.Assume,
		"wall_s":      round2(time.Since(start).Seconds()),
		"violations":  realViol,
	}
	evDir := envOr("VERIF_EVIDENCE_DIR", filepath.Join(root, "evidence"))
	_ = os.MkdirAll(evDir, 0o755)
	eb, _ := json.MarshalIndent(ev, "", " ")
	_ = os.WriteFile(filepath.Join(evDir, p.ID+".json"), append(eb, '\n'), 0o644)

	status := map[int]string{0: "OK", 1: "VIOLATION", 2: "INCONCLUSIVE"}[exit]
	fmt.Printf("%s property=%s tier=%s seed=%d evaluations=%d distinct_nontrivial=%d wall=%.1fs\n",
		status, p.ID, tier, seed, evals, dn, time.Since(start).Seconds())
	return exit
}

func round3(f float64) float64 { return float64(int64(f*1000+0.5)) / 1000 }
func round2(f float64) float64 { return float64(int64(f*100+0.5)) / 100 }

func tail(s string, n int) string {
	lines := strings.Split(strings.TrimRight(s, "\n"), "\n")
	if len(lines) > n {
		lines = lines[len(lines)-n:]
	}
	return strings.Join(lines, "\n")
}

func indent(s string) string {
	return "    " + strings.ReplaceAll(s, "\n", "\n    ")
}

// runFuzz runs one native fuzz target for the configured time.  A crasher is a
// violation whose replay file is the saved corpus entry.
func runFuzz(p propCfg, target, work string) (string, *violation) {
	pkgDir := filepath.Join(root, "harness", p.Pkg)
	cache := filepath.Join(workDir, "fuzzcache", p.ID)
	_ = os.MkdirAll(cache, 0o755)
	before := listFiles(filepath.Join(pkgDir, "testdata", "fuzz", target))
	args := []string{"test", "-vet=off", "-run=^$", "-fuzz=^" + target + "$", "-fuzztime=" + p.FuzzTime.String(),
		"-test.fuzzcachedir=" + cache}
	if mf, _ := altModfile(); mf != "" {
		args = append(args, mf)
	}
	args = append(args, "./"+p.Pkg)
	cmd := exec.Command("go", args...)
	cmd.Dir = filepath.Join(root, "harness")
	cmd.Env = append(goEnv(), "VERIF_TIER=thorough")
	outb, err := cmd.CombinedOutput()
	out := string(outb)
	execs := ""
	for _, l := range strings.Split(out, "\n") {
		if strings.Contains(l, "execs:") {
			execs = strings.TrimSpace(l)
		}
	}
	note := fmt.Sprintf("%s: %s", target, execs)
	if err == nil {
		return note, nil
	}
	after := listFiles(filepath.Join(pkgDir, "testdata", "fuzz", target))
	if rp := replayFromFuzzOutput(out); rp != "" {
		for f := range after {
			if !before[f] {
				_ = os.Remove(f) // the JSON replay file is the reproducible unit; do not poison later runs
			}
		}
		return note + " CRASHER", &violation{Target: "fuzz", Replay: rp, Message: firstFail(out), Source: "fuzz"}
	}
	for f := range after {
		if !before[f] {
			// move the crasher out of the package so that later runs are not poisoned
			dst := filepath.Join(root, "replays", p.ID, "fuzz-"+target+"-"+filepath.Base(f))
			_ = os.MkdirAll(filepath.Dir(dst), 0o755)
			b, _ := os.ReadFile(f)
			_ = os.WriteFile(dst, b, 0o644)
			_ = os.Remove(f)
			return note + " CRASHER", &violation{Target: "fuzz/" + target, Replay: dst, Message: firstFail(out), Source: "fuzz"}
		}
	}
	if strings.Contains(out, "FAIL") && strings.Contains(out, "--- FAIL") {
		return note + " FAIL(seed corpus)", &violation{Target: "fuzz/" + target, Replay: "", Message: firstFail(out), Source: "fuzz"}
	}
	return note + " (fuzz engine error, ignored: " + tail(out, 3) + ")", nil
}

func firstFail(out string) string {
	for _, l := range strings.Split(out, "\n") {
		if strings.Contains(l, "violation:") || strings.Contains(l, "panic:") {
			return strings.TrimSpace(l)
		}
	}
	return tail(out, 5)
}

// replayFromFuzzOutput extracts the JSON replay file the fuzz target wrote.
func replayFromFuzzOutput(out string) string {
	for _, l := range strings.Split(out, "\n") {
		if i := strings.Index(l, "violation: replay="); i >= 0 {
			rest := l[i+len("violation: replay="):]
			if j := strings.IndexByte(rest, ' '); j >= 0 {
				rest = rest[:j]
			}
			return rest
		}
	}
	return ""
}

func listFiles(dir string) map[string]bool {
	m := map[string]bool{}
	es, _ := os.ReadDir(dir)
	for _, e := range es {
		m[filepath.Join(dir, e.Name())] = true
	}
	return m
}
