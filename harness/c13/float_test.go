package c13

import (
	"fmt"
	"math"
	"slices"
	"testing"

	"github.com/emirpasic/gods/v2/sets/hashset"
	"github.com/emirpasic/gods/v2/sets/linkedhashset"
	"github.com/emirpasic/gods/v2/sets/treeset"
	"pgregory.net/rapid"

	"verif/harness/internal/pbt"
)

// Set algebra over float64 members, with the values that are not equal to
// themselves or to their own text: NaN, the two zeros, the infinities.
//
// In the two hash sets membership is ==: a NaN is never "in" any set (Contains(NaN)
// is false), so an intersection holds no NaN at all, and a difference keeps every NaN
// of the receiver; -0 and +0 are one member.  In a TreeSet made by the default
// constructor (cmp.Compare) NaN is an ordinary member that sorts first.  The other
// members follow the plain set laws.  Neither operand changes.

type FCase struct {
	Kind string `json:"kind"` // hashset | linkedhashset | treeset
	A    []int  `json:"a"`    // indices into fDomain
	B    []int  `json:"b"`
	Same bool   `json:"same"`
	Op   string `json:"op"`
}

var fDomain = []float64{math.NaN(), math.Copysign(0, -1), 0, 1, 2, 3, math.Inf(1), math.Inf(-1), math.NaN(), 0.5, -1}

type fset[S any] interface {
	Add(...float64)
	Contains(...float64) bool
	Values() []float64
	Size() int
	Intersection(S) S
	Union(S) S
	Difference(S) S
}

// summary of a Values() slice: number of NaNs and the sorted non-NaN members (zeros folded)
func fsum(xs []float64) (nan int, rest []float64) {
	for _, x := range xs {
		switch {
		case x != x:
			nan++
		case x == 0:
			rest = append(rest, 0)
		default:
			rest = append(rest, x)
		}
	}
	slices.Sort(rest)
	return
}

// fshow lists values in an order that does not depend on Go's map order.
func fshow(xs []float64) []float64 {
	out := slices.Clone(xs)
	slices.SortFunc(out, func(a, b float64) int {
		if c := cmpF(a, b); c != 0 {
			return c
		}
		return cmpF(math.Copysign(1, a), math.Copysign(1, b))
	})
	return out
}

func cmpF(a, b float64) int {
	switch {
	case a != a && b != b:
		return 0
	case a != a:
		return -1
	case b != b:
		return 1
	case a < b:
		return -1
	case a > b:
		return 1
	}
	return 0
}

func frun[S fset[S]](c FCase, mk func() S, nanIsMember bool) (pbt.Info, error) {
	var info pbt.Info
	pick := func(ix []int) []float64 {
		out := make([]float64, 0, len(ix))
		for _, i := range ix {
			out = append(out, fDomain[i%len(fDomain)])
		}
		return out
	}
	a := mk()
	a.Add(pick(c.A)...)
	b := a
	bv := c.A
	if !c.Same {
		b = mk()
		b.Add(pick(c.B)...)
		bv = c.B
	}
	na0, ra0 := fsum(a.Values())
	nb0, rb0 := fsum(b.Values())
	var r S
	switch c.Op {
	case "intersection":
		r = a.Intersection(b)
	case "union":
		r = a.Union(b)
	default:
		r = a.Difference(b)
	}
	desc := fmt.Sprintf("%s[float64] a=%v b=%v same=%v %s", c.Kind, pick(c.A), pick(bv), c.Same, c.Op)
	if na1, ra1 := fsum(a.Values()); na1 != na0 || !slices.Equal(ra1, ra0) {
		return info, fmt.Errorf("%s: the receiver changed: %v", desc, fshow(a.Values()))
	}
	if nb1, rb1 := fsum(b.Values()); nb1 != nb0 || !slices.Equal(rb1, rb0) {
		return info, fmt.Errorf("%s: the argument changed: %v", desc, fshow(b.Values()))
	}
	inA := func(x float64) bool { _, ok := slices.BinarySearch(ra0, x); return ok }
	inB := func(x float64) bool { _, ok := slices.BinarySearch(rb0, x); return ok }
	var want []float64
	for _, x := range ra0 {
		switch c.Op {
		case "intersection":
			if inB(x) {
				want = append(want, x)
			}
		case "union":
			want = append(want, x)
		default:
			if !inB(x) {
				want = append(want, x)
			}
		}
	}
	if c.Op == "union" {
		for _, x := range rb0 {
			if !inA(x) {
				want = append(want, x)
			}
		}
		slices.Sort(want)
	}
	nr, rr := fsum(r.Values())
	if !slices.Equal(rr, want) && len(rr)+len(want) > 0 {
		return info, fmt.Errorf("%s: result holds %v, its members other than NaN should be %v", desc, fshow(r.Values()), want)
	}
	if r.Size() != len(r.Values()) {
		return info, fmt.Errorf("%s: result has Size()=%d but Values()=%v", desc, r.Size(), r.Values())
	}
	if nanIsMember {
		// NaN is one ordinary member of a cmp.Compare-ordered set
		ha, hb := na0 > 0, nb0 > 0
		wantNaN := map[string]bool{"intersection": ha && hb, "union": ha || hb, "difference": ha && !hb}[c.Op]
		if (nr == 1) != wantNaN || nr > 1 {
			return info, fmt.Errorf("%s: result holds %d NaN members (%v), want %v", desc, nr, r.Values(), wantNaN)
		}
	} else {
		switch c.Op {
		case "intersection": // a NaN is never a member of the other set
			if nr != 0 {
				return info, fmt.Errorf("%s: result %v holds %d NaN although Contains(NaN) is false for every set", desc, fshow(r.Values()), nr)
			}
		case "difference": // ... and so every NaN of the receiver stays
			if nr != na0 {
				return info, fmt.Errorf("%s: result %v holds %d NaN, the receiver has %d and none of them is in the argument", desc, fshow(r.Values()), nr, na0)
			}
		default:
			if nr < max(na0, nb0) {
				return info, fmt.Errorf("%s: result %v holds %d NaN, fewer than an operand", desc, fshow(r.Values()), nr)
			}
		}
	}
	for _, x := range want {
		if !r.Contains(x) {
			return info, fmt.Errorf("%s: result %v: Contains(%v) = false", desc, fshow(r.Values()), x)
		}
	}
	info.NonTrivial = na0+nb0 > 0 && len(ra0) > 0 && len(rb0) > 0
	if na0+nb0 > 0 {
		info.Label("float:NaN-operand")
	}
	return info, nil
}

func checkFloat(c FCase) (pbt.Info, error) {
	switch c.Kind {
	case "hashset":
		return frun(c, func() *hashset.Set[float64] { return hashset.New[float64]() }, false)
	case "linkedhashset":
		return frun(c, func() *linkedhashset.Set[float64] { return linkedhashset.New[float64]() }, false)
	case "treeset":
		return frun(c, func() *treeset.Set[float64] { return treeset.New[float64]() }, true)
	}
	return pbt.Info{}, fmt.Errorf("bad kind %q", c.Kind)
}

func TestFloatMembers(t *testing.T) {
	for _, kind := range []string{"hashset", "linkedhashset", "treeset"} {
		kind := kind
		pbt.Run(t, pbt.Target[FCase]{Name: kind + "/float64", Checks: 2500, Check: checkFloat, Gen: func(t *rapid.T) FCase {
			ix := rapid.SliceOfN(rapid.IntRange(0, len(fDomain)-1), 0, 9)
			c := FCase{Kind: kind, A: ix.Draw(t, "a"), Op: rapid.SampledFrom([]string{"intersection", "union", "difference"}).Draw(t, "op")}
			if rapid.IntRange(0, 6).Draw(t, "same") == 3 {
				c.Same = true
			} else {
				c.B = ix.Draw(t, "b")
			}
			return c
		}})
	}
}
