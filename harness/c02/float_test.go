package c02

// Ordered containers built with the DEFAULT constructors (New, cmp.Compare) on
// float64 keys including NaN, the two zeros and the infinities: enumeration is
// strictly ascending under cmp.Compare (NaN first), the least/greatest
// accessors and Floor/Ceiling agree with a sorted model.

import (
	"cmp"
	"fmt"
	"math"
	"slices"
	"testing"

	"github.com/emirpasic/gods/v2/maps/treemap"
	"github.com/emirpasic/gods/v2/sets/treeset"
	"github.com/emirpasic/gods/v2/trees/avltree"
	"github.com/emirpasic/gods/v2/trees/btree"
	"github.com/emirpasic/gods/v2/trees/redblacktree"
	"pgregory.net/rapid"

	"verif/harness/internal/pbt"
)

var floatDomain = []float64{math.NaN(), math.Inf(-1), -2.5, -1, math.Copysign(0, -1), 0, 0.5, 1, 2, 3.25, 1e300, math.Inf(1)}

type FOp struct {
	O string `json:"o"` // put | rem | clear
	K int    `json:"k"`
}

type FCase struct {
	Kind  string `json:"kind"`
	Order int    `json:"order,omitempty"`
	Ops   []FOp  `json:"ops"`
}

type fnav struct {
	put     func(float64)
	rem     func(float64)
	clear   func()
	keys    func() []float64
	iter    func() []float64
	min     func() (float64, bool)
	max     func() (float64, bool)
	floor   func(float64) (float64, bool)
	ceiling func(float64) (float64, bool)
}

func buildFloat(c FCase) fnav {
	switch c.Kind {
	case "redblacktree":
		t := redblacktree.New[float64, int]()
		return fnav{put: func(k float64) { t.Put(k, 1) }, rem: t.Remove, clear: t.Clear, keys: t.Keys,
			iter: func() []float64 {
				var out []float64
				for it := t.Iterator(); it.Next(); {
					out = append(out, it.Key())
				}
				return out
			},
			min: func() (float64, bool) {
				if n := t.Left(); n != nil {
					return n.Key, true
				}
				return 0, false
			},
			max: func() (float64, bool) {
				if n := t.Right(); n != nil {
					return n.Key, true
				}
				return 0, false
			},
			floor: func(k float64) (float64, bool) {
				if n, ok := t.Floor(k); ok {
					return n.Key, true
				}
				return 0, false
			},
			ceiling: func(k float64) (float64, bool) {
				if n, ok := t.Ceiling(k); ok {
					return n.Key, true
				}
				return 0, false
			}}
	case "avltree":
		t := avltree.New[float64, int]()
		return fnav{put: func(k float64) { t.Put(k, 1) }, rem: t.Remove, clear: t.Clear, keys: t.Keys,
			iter: func() []float64 {
				var out []float64
				for it := t.Iterator(); it.Next(); {
					out = append(out, it.Key())
				}
				return out
			},
			min: func() (float64, bool) {
				if n := t.Left(); n != nil {
					return n.Key, true
				}
				return 0, false
			},
			max: func() (float64, bool) {
				if n := t.Right(); n != nil {
					return n.Key, true
				}
				return 0, false
			},
			floor: func(k float64) (float64, bool) {
				if n, ok := t.Floor(k); ok {
					return n.Key, true
				}
				return 0, false
			},
			ceiling: func(k float64) (float64, bool) {
				if n, ok := t.Ceiling(k); ok {
					return n.Key, true
				}
				return 0, false
			}}
	case "btree":
		t := btree.New[float64, int](c.Order)
		return fnav{put: func(k float64) { t.Put(k, 1) }, rem: t.Remove, clear: t.Clear, keys: t.Keys,
			iter: func() []float64 {
				var out []float64
				for it := t.Iterator(); it.Next(); {
					out = append(out, it.Key())
				}
				return out
			},
			min: func() (float64, bool) {
				if k := t.LeftKey(); k != nil {
					return k.(float64), true
				}
				return 0, false
			},
			max: func() (float64, bool) {
				if k := t.RightKey(); k != nil {
					return k.(float64), true
				}
				return 0, false
			}}
	case "treemap":
		t := treemap.New[float64, int]()
		return fnav{put: func(k float64) { t.Put(k, 1) }, rem: t.Remove, clear: t.Clear, keys: t.Keys,
			iter: func() []float64 {
				var out []float64
				for it := t.Iterator(); it.Next(); {
					out = append(out, it.Key())
				}
				return out
			},
			min:     func() (float64, bool) { k, _, ok := t.Min(); return k, ok },
			max:     func() (float64, bool) { k, _, ok := t.Max(); return k, ok },
			floor:   func(k float64) (float64, bool) { f, _, ok := t.Floor(k); return f, ok },
			ceiling: func(k float64) (float64, bool) { f, _, ok := t.Ceiling(k); return f, ok }}
	case "treeset":
		t := treeset.New[float64]()
		return fnav{put: func(k float64) { t.Add(k) }, rem: func(k float64) { t.Remove(k) }, clear: t.Clear, keys: t.Values,
			iter: func() []float64 {
				var out []float64
				it := t.Iterator()
				for it.Next() {
					out = append(out, it.Value())
				}
				return out
			}}
	}
	panic("bad kind " + c.Kind)
}

func sameFloats(a, b []float64) bool {
	if len(a) != len(b) {
		return false
	}
	for i := range a {
		if cmp.Compare(a[i], b[i]) != 0 {
			return false
		}
	}
	return true
}

func checkFloat(c FCase) (pbt.Info, error) {
	var info pbt.Info
	o := buildFloat(c)
	var m []float64
	find := func(k float64) (int, bool) { return slices.BinarySearchFunc(m, k, cmp.Compare[float64]) }
	unusual := false
	for i, op := range c.Ops {
		k := floatDomain[((op.K%len(floatDomain))+len(floatDomain))%len(floatDomain)]
		if math.IsNaN(k) || math.IsInf(k, 0) || k == 0 {
			unusual = true
		}
		switch op.O {
		case "put":
			if j, ok := find(k); !ok {
				m = slices.Insert(m, j, k)
			}
			o.put(k)
		case "rem":
			if j, ok := find(k); ok {
				m = slices.Delete(m, j, j+1)
			}
			o.rem(k)
		default:
			m = nil
			o.clear()
		}
		what := fmt.Sprintf("%s.New[float64] step %d %s(%v)", c.Kind, i, op.O, k)
		if keys := o.keys(); !sameFloats(keys, m) {
			return info, fmt.Errorf("%s: Keys()=%v, want %v (cmp.Compare order, NaN first)", what, keys, m)
		}
		if it := o.iter(); !sameFloats(it, m) {
			return info, fmt.Errorf("%s: iteration yields %v, want %v", what, it, m)
		}
		if o.min != nil {
			g, ok := o.min()
			if ok != (len(m) > 0) || ok && cmp.Compare(g, m[0]) != 0 {
				return info, fmt.Errorf("%s: least element = (%v,%v), keys %v", what, g, ok, m)
			}
			g, ok = o.max()
			if ok != (len(m) > 0) || ok && cmp.Compare(g, m[len(m)-1]) != 0 {
				return info, fmt.Errorf("%s: greatest element = (%v,%v), keys %v", what, g, ok, m)
			}
		}
		if o.floor != nil {
			for _, p := range floatDomain {
				j, hit := find(p)
				var wf, wc float64
				fok, cok := false, false
				if hit {
					wf, wc, fok, cok = m[j], m[j], true, true
				} else {
					if j > 0 {
						wf, fok = m[j-1], true
					}
					if j < len(m) {
						wc, cok = m[j], true
					}
				}
				if g, ok := o.floor(p); ok != fok || ok && cmp.Compare(g, wf) != 0 {
					return info, fmt.Errorf("%s: Floor(%v) = (%v,%v), want (%v,%v); keys %v", what, p, g, ok, wf, fok, m)
				}
				if g, ok := o.ceiling(p); ok != cok || ok && cmp.Compare(g, wc) != 0 {
					return info, fmt.Errorf("%s: Ceiling(%v) = (%v,%v), want (%v,%v); keys %v", what, p, g, ok, wc, cok, m)
				}
			}
		}
	}
	info.NonTrivial = unusual && len(c.Ops) >= 4
	return info, nil
}

func genFloat(kind string) func(t *rapid.T) FCase {
	return func(t *rapid.T) FCase {
		c := FCase{Kind: kind}
		if kind == "btree" {
			c.Order = []int{3, 4, 5}[rapid.IntRange(0, 2).Draw(t, "order")]
		}
		for chunk := 0; chunk < 3; chunk++ {
			ops := rapid.SliceOfN(rapid.Custom(func(t *rapid.T) FOp {
				o := "put"
				switch rapid.IntRange(0, 19).Draw(t, "o") {
				case 0, 1, 2, 3, 4, 5, 6:
					o = "rem"
				case 7:
					o = "clear"
				}
				return FOp{O: o, K: rapid.IntRange(0, len(floatDomain)-1).Draw(t, "k")}
			}), 0, 12).Draw(t, "ops")
			c.Ops = append(c.Ops, ops...)
		}
		return c
	}
}

func TestDefaultConstructorsFloatKeys(t *testing.T) {
	for _, kind := range []string{"redblacktree", "avltree", "btree", "treemap", "treeset"} {
		pbt.Run(t, pbt.Target[FCase]{Name: kind + "/default-comparator-float64", Checks: 4000, Gen: genFloat(kind), Check: checkFloat})
	}
}
