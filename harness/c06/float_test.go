package c06

// BinaryHeap and PriorityQueue built with the DEFAULT constructors (New,
// cmp.Compare) on float64 elements including NaN, the two zeros and the
// infinities.  cmp.Compare is a total order on float64 (NaN first), so the heap
// guarantee must hold with NaN as an ordinary element.

import (
	"cmp"
	"fmt"
	"math"
	"testing"

	"github.com/emirpasic/gods/v2/queues/priorityqueue"
	"github.com/emirpasic/gods/v2/trees/binaryheap"
	"pgregory.net/rapid"

	"verif/harness/internal/pbt"
)

var floatDomain = []float64{math.NaN(), math.Inf(-1), -2.5, -1, math.Copysign(0, -1), 0, 0.5, 1, 2, 3.25, 1e300, math.Inf(1)}

type FCase struct {
	Kind string `json:"kind"`
	Ops  []int  `json:"ops"` // >= 0: push floatDomain[op]; -1: pop; -2: clear
}

func checkFloat(c FCase) (pbt.Info, error) {
	var info pbt.Info
	var push func(float64)
	var pop, peek func() (float64, bool)
	var clear func()
	var size func() int
	var values func() []float64
	if c.Kind == "binaryheap" {
		h := binaryheap.New[float64]()
		push, pop, peek, clear, size, values = func(x float64) { h.Push(x) }, h.Pop, h.Peek, h.Clear, h.Size, h.Values
	} else {
		q := priorityqueue.New[float64]()
		push, pop, peek, clear, size, values = q.Enqueue, q.Dequeue, q.Peek, q.Clear, q.Size, q.Values
	}
	model := map[uint64]int{} // multiset keyed by the bit pattern (NaN != NaN under ==)
	total := 0
	key := func(x float64) uint64 {
		if x == 0 {
			return 0 // -0 and +0 are one value under cmp.Compare; either may come back
		}
		return math.Float64bits(x)
	}
	precedes := func(x float64) (float64, bool) {
		best, found := 0.0, false
		for k := range model {
			m := math.Float64frombits(k)
			if cmp.Compare(m, x) < 0 && (!found || cmp.Compare(m, best) < 0) {
				best, found = m, true
			}
		}
		return best, found
	}
	nan, popped := false, 0
	for i, op := range c.Ops {
		switch {
		case op >= 0:
			x := floatDomain[op%len(floatDomain)]
			if math.IsNaN(x) {
				nan = true
			}
			push(x)
			model[key(x)]++
			total++
		case op == -1:
			x, ok := pop()
			if ok != (total > 0) {
				return info, fmt.Errorf("%s.New[float64] step %d: Pop ok=%v with %d elements", c.Kind, i, ok, total)
			}
			if ok {
				if model[key(x)] == 0 {
					return info, fmt.Errorf("%s.New[float64] step %d: Pop returned %v, which is not contained", c.Kind, i, x)
				}
				if m, bad := precedes(x); bad {
					return info, fmt.Errorf("%s.New[float64] step %d: Pop returned %v although contained %v precedes it (cmp.Compare order, NaN first)", c.Kind, i, x, m)
				}
				model[key(x)]--
				if model[key(x)] == 0 {
					delete(model, key(x))
				}
				total--
				popped++
			}
		default:
			clear()
			model = map[uint64]int{}
			total = 0
		}
		if size() != total {
			return info, fmt.Errorf("%s.New[float64] step %d: Size()=%d, model holds %d", c.Kind, i, size(), total)
		}
		if x, ok := peek(); ok {
			if m, bad := precedes(x); bad || model[key(x)] == 0 {
				return info, fmt.Errorf("%s.New[float64] step %d: Peek returned %v, contained minimum is %v", c.Kind, i, x, m)
			}
		}
		if vs := values(); len(vs) != total {
			return info, fmt.Errorf("%s.New[float64] step %d: Values() lists %d, model holds %d", c.Kind, i, len(vs), total)
		}
	}
	var prev *float64
	for total > 0 {
		x, ok := pop()
		if !ok || model[key(x)] == 0 {
			return info, fmt.Errorf("%s.New[float64] drain: Pop = (%v,%v) with %d left", c.Kind, x, ok, total)
		}
		if prev != nil && cmp.Compare(*prev, x) > 0 {
			return info, fmt.Errorf("%s.New[float64] drain: %v came out after %v", c.Kind, x, *prev)
		}
		y := x
		prev = &y
		model[key(x)]--
		total--
	}
	info.NonTrivial = nan && popped > 0
	return info, nil
}

func genFloat(kind string) func(t *rapid.T) FCase {
	return func(t *rapid.T) FCase {
		c := FCase{Kind: kind}
		for chunk := 0; chunk < 3; chunk++ {
			c.Ops = append(c.Ops, rapid.SliceOfN(rapid.IntRange(-2, len(floatDomain)-1), 0, 12).Draw(t, "ops")...)
		}
		return c
	}
}

func TestDefaultConstructorsFloatElements(t *testing.T) {
	for _, kind := range []string{"binaryheap", "priorityqueue"} {
		pbt.Run(t, pbt.Target[FCase]{Name: kind + "/default-comparator-float64", Checks: 5000, Gen: genFloat(kind), Check: checkFloat})
	}
}
