//go:build race

package c18

import "runtime"

const raceEnabled = true

// raceErrors is the number of data races the detector has reported so far.
func raceErrors() int { return runtime.RaceErrors() }
