module verif/driver

go 1.21
