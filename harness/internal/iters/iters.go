// Package iters builds each of the 18 iterable container kinds in a given state
// and exposes its iterator behind one cursor interface.
package iters

import (
	"fmt"
	"github.com/emirpasic/gods/v2/lists/arraylist"
	"github.com/emirpasic/gods/v2/lists/doublylinkedlist"
	"github.com/emirpasic/gods/v2/lists/singlylinkedlist"
	"github.com/emirpasic/gods/v2/maps/linkedhashmap"
	"github.com/emirpasic/gods/v2/maps/treebidimap"
	"github.com/emirpasic/gods/v2/maps/treemap"
	"github.com/emirpasic/gods/v2/queues/arrayqueue"
	"github.com/emirpasic/gods/v2/queues/circularbuffer"
	"github.com/emirpasic/gods/v2/queues/linkedlistqueue"
	"github.com/emirpasic/gods/v2/queues/priorityqueue"
	"github.com/emirpasic/gods/v2/sets/linkedhashset"
	"github.com/emirpasic/gods/v2/sets/treeset"
	"github.com/emirpasic/gods/v2/stacks/arraystack"
	"github.com/emirpasic/gods/v2/stacks/linkedliststack"
	"github.com/emirpasic/gods/v2/trees/avltree"
	"github.com/emirpasic/gods/v2/trees/binaryheap"
	"github.com/emirpasic/gods/v2/trees/btree"
	"github.com/emirpasic/gods/v2/trees/redblacktree"
	"strconv"
	"strings"

	"verif/harness/internal/dom"
	"verif/harness/internal/via"
)

// Kinds lists the 18 iterator-bearing containers.
var Kinds = []string{
	"arraylist", "singlylinkedlist", "doublylinkedlist",
	"treeset", "linkedhashset",
	"arraystack", "linkedliststack",
	"arrayqueue", "linkedlistqueue", "circularbuffer", "priorityqueue",
	"treemap", "linkedhashmap", "treebidimap",
	"redblacktree", "avltree", "btree", "binaryheap",
}

// ForwardOnly reports whether the kind's iterator lacks Prev/End/Last/PrevTo.
func ForwardOnly(kind string) bool {
	switch kind {
	case "singlylinkedlist", "linkedliststack", "linkedlistqueue":
		return true
	}
	return false
}

// Keyed reports whether the iterator exposes Key() instead of Index().
func Keyed(kind string) bool {
	switch kind {
	case "treemap", "linkedhashmap", "treebidimap", "redblacktree", "avltree", "btree":
		return true
	}
	return false
}

// Elem is one element of the container's sequence: (index or key, value).
type Elem struct{ K, V int }

// Spec describes the state to build.
type Spec struct {
	Kind  string `json:"kind"`
	Cmp   string `json:"cmp,omitempty"`   // tree-backed kinds
	Cap   int    `json:"cap,omitempty"`   // ring capacity
	Order int    `json:"order,omitempty"` // B-tree order
	Adds  []int  `json:"adds"`            // values / keys inserted first
	Rems  []int  `json:"rems,omitempty"`  // then: removed keys/values, removal indices, or (stacks, queues, heaps) pop once per entry and push the entry afterwards
	At    *int   `json:"at,omitempty"`    // red-black tree only: start the iterator with IteratorAt(GetNode(key)) when the key is present
	Front []int  `json:"front,omitempty"` // the three lists only: Insert(0, Front...) after Adds (several values spliced in front of a non-empty list)
}

type fwd interface {
	Next() bool
	Value() int
	Begin()
	First() bool
	NextTo(func(int, int) bool) bool
}
type rev interface {
	Prev() bool
	End()
	Last() bool
	PrevTo(func(int, int) bool) bool
}
type indexed interface{ Index() int }
type keyed interface{ Key() int }

// Cursor is the uniform view of one iterator.
type Cursor struct {
	F   fwd
	R   rev // nil for forward-only iterators
	Pos func() int
}

// Container is a built container: a way to obtain fresh iterators and the
// sequence (from the container's own observers) they are expected to walk.
type Container struct {
	Spec     Spec
	Iterator func() Cursor
	// Seq is the container's sequence read through Values()/Keys()+Get.
	Seq func() []Elem
	// Obj is the container itself (for fingerprinting).
	Obj any
	// Start is the cursor position a fresh iterator starts at (-1 unless IteratorAt is used).
	Start func() int
	// Mutate applies further insertions and removals (same meaning as Spec.Adds / Spec.Rems).
	Mutate func(adds, rems []int)
	// Load replaces the content through FromJSON / UnmarshalJSON / json.Unmarshal: the
	// array of the keys, or — keyed kinds — the object {key: val(key)}.
	Load func(keys []int) error
}

func mkCursor(it any) Cursor {
	c := Cursor{F: it.(fwd)}
	if r, ok := it.(rev); ok {
		c.R = r
	}
	if ix, ok := it.(indexed); ok {
		c.Pos = ix.Index
	} else {
		c.Pos = it.(keyed).Key
	}
	return c
}

func valueSeq(values func() []int) func() []Elem {
	return func() []Elem {
		vs := values()
		out := make([]Elem, len(vs))
		for i, v := range vs {
			out[i] = Elem{i, v}
		}
		return out
	}
}

func keySeq(keys func() []int, get func(int) (int, bool)) func() []Elem {
	return func() []Elem {
		ks := keys()
		out := make([]Elem, len(ks))
		for i, k := range ks {
			v, _ := get(k)
			out[i] = Elem{k, v}
		}
		return out
	}
}

func val(k int) int { return k*10 + 1 }

func mod(a, m int) int { return ((a % m) + m) % m }

// Build constructs the container described by s.
func Build(s Spec) Container {
	c := Container{Spec: s}
	cmp := dom.Cmp(s.Cmp)
	type list interface {
		Add(...int)
		Remove(int)
		Insert(int, ...int)
		Size() int
		Values() []int
	}
	frontDone := false
	buildList := func(l list, adds, rems []int) {
		l.Add(adds...)
		if !frontDone && len(s.Front) > 0 {
			frontDone = true
			l.Insert(0, s.Front...)
		}
		for _, r := range rems {
			if l.Size() > 0 {
				l.Remove(mod(r, l.Size()))
			}
		}
	}
	type popper struct {
		push func(int)
		pop  func() (int, bool)
	}
	buildPop := func(p popper, adds, rems []int) {
		for _, a := range adds {
			p.push(a)
		}
		for range rems {
			p.pop()
		}
		for _, r := range rems {
			p.push(r)
		}
	}
	type kv interface {
		Put(int, int)
		Remove(int)
		Keys() []int
		Get(int) (int, bool)
	}
	buildKV := func(m kv, adds, rems []int) {
		for _, a := range adds {
			m.Put(a, val(a))
		}
		for _, r := range rems {
			m.Remove(r)
		}
	}
	switch s.Kind {
	case "arraylist":
		l := arraylist.New[int]()
		c.Mutate = func(a, r []int) { buildList(l, a, r) }
		c.Obj, c.Seq = l, valueSeq(l.Values)
		c.Iterator = func() Cursor { return mkCursor(l.Iterator()) }
	case "singlylinkedlist":
		l := singlylinkedlist.New[int]()
		c.Mutate = func(a, r []int) { buildList(l, a, r) }
		c.Obj, c.Seq = l, valueSeq(l.Values)
		c.Iterator = func() Cursor { return mkCursor(l.Iterator()) }
	case "doublylinkedlist":
		l := doublylinkedlist.New[int]()
		c.Mutate = func(a, r []int) { buildList(l, a, r) }
		c.Obj, c.Seq = l, valueSeq(l.Values)
		c.Iterator = func() Cursor { it := l.Iterator(); return mkCursor(&it) }
	case "treeset":
		t := treeset.NewWith[int](cmp)
		c.Mutate = func(a, r []int) { t.Add(a...); t.Remove(r...) }
		c.Obj, c.Seq = t, valueSeq(t.Values)
		c.Iterator = func() Cursor { it := t.Iterator(); return mkCursor(&it) }
	case "linkedhashset":
		t := linkedhashset.New[int]()
		c.Mutate = func(a, r []int) { t.Add(a...); t.Remove(r...) }
		c.Obj, c.Seq = t, valueSeq(t.Values)
		c.Iterator = func() Cursor { it := t.Iterator(); return mkCursor(&it) }
	case "arraystack":
		t := arraystack.New[int]()
		c.Mutate = func(a, r []int) { buildPop(popper{t.Push, t.Pop}, a, r) }
		c.Obj, c.Seq = t, valueSeq(t.Values)
		c.Iterator = func() Cursor { return mkCursor(t.Iterator()) }
	case "linkedliststack":
		t := linkedliststack.New[int]()
		c.Mutate = func(a, r []int) { buildPop(popper{t.Push, t.Pop}, a, r) }
		c.Obj, c.Seq = t, valueSeq(t.Values)
		c.Iterator = func() Cursor { return mkCursor(t.Iterator()) }
	case "arrayqueue":
		t := arrayqueue.New[int]()
		c.Mutate = func(a, r []int) { buildPop(popper{t.Enqueue, t.Dequeue}, a, r) }
		c.Obj, c.Seq = t, valueSeq(t.Values)
		c.Iterator = func() Cursor { return mkCursor(t.Iterator()) }
	case "linkedlistqueue":
		t := linkedlistqueue.New[int]()
		c.Mutate = func(a, r []int) { buildPop(popper{t.Enqueue, t.Dequeue}, a, r) }
		c.Obj, c.Seq = t, valueSeq(t.Values)
		c.Iterator = func() Cursor { return mkCursor(t.Iterator()) }
	case "circularbuffer":
		t := circularbuffer.New[int](s.Cap)
		c.Mutate = func(a, r []int) { buildPop(popper{t.Enqueue, t.Dequeue}, a, r) }
		c.Obj, c.Seq = t, valueSeq(t.Values)
		c.Iterator = func() Cursor { return mkCursor(t.Iterator()) }
	case "priorityqueue":
		t := priorityqueue.NewWith[int](cmp)
		c.Mutate = func(a, r []int) { buildPop(popper{t.Enqueue, t.Dequeue}, a, r) }
		c.Obj, c.Seq = t, valueSeq(t.Values)
		c.Iterator = func() Cursor { return mkCursor(t.Iterator()) }
	case "binaryheap":
		t := binaryheap.NewWith[int](cmp)
		c.Mutate = func(a, r []int) { buildPop(popper{func(v int) { t.Push(v) }, t.Pop}, a, r) }
		c.Obj, c.Seq = t, valueSeq(t.Values)
		c.Iterator = func() Cursor { return mkCursor(t.Iterator()) }
	case "treemap":
		t := treemap.NewWith[int, int](cmp)
		c.Mutate = func(a, r []int) { buildKV(t, a, r) }
		c.Obj, c.Seq = t, keySeq(t.Keys, t.Get)
		c.Iterator = func() Cursor { return mkCursor(t.Iterator()) }
	case "linkedhashmap":
		t := linkedhashmap.New[int, int]()
		c.Mutate = func(a, r []int) { buildKV(t, a, r) }
		c.Obj, c.Seq = t, keySeq(t.Keys, t.Get)
		c.Iterator = func() Cursor { return mkCursor(t.Iterator()) }
	case "treebidimap":
		t := treebidimap.NewWith[int, int](cmp, dom.Cmp(dom.Nat))
		c.Mutate = func(a, r []int) { buildKV(t, a, r) }
		c.Obj, c.Seq = t, keySeq(t.Keys, t.Get)
		c.Iterator = func() Cursor { return mkCursor(t.Iterator()) }
	case "redblacktree":
		t := redblacktree.NewWith[int, int](cmp)
		c.Mutate = func(a, r []int) { buildKV(t, a, r) }
		c.Obj, c.Seq = t, keySeq(t.Keys, t.Get)
		c.Iterator = func() Cursor {
			if s.At != nil {
				if n := t.GetNode(*s.At); n != nil {
					return mkCursor(t.IteratorAt(n))
				}
			}
			return mkCursor(t.Iterator())
		}
		if s.At != nil {
			c.Start = func() int {
				for i, k := range t.Keys() {
					if cmp(k, *s.At) == 0 {
						return i
					}
				}
				return -1
			}
		}
	case "avltree":
		t := avltree.NewWith[int, int](cmp)
		c.Mutate = func(a, r []int) { buildKV(t, a, r) }
		c.Obj, c.Seq = t, keySeq(t.Keys, t.Get)
		c.Iterator = func() Cursor { return mkCursor(t.Iterator()) }
	case "btree":
		t := btree.NewWith[int, int](s.Order, cmp)
		c.Mutate = func(a, r []int) { buildKV(t, a, r) }
		c.Obj, c.Seq = t, keySeq(t.Keys, t.Get)
		c.Iterator = func() Cursor { return mkCursor(t.Iterator()) }
	default:
		panic("iters: unknown kind " + s.Kind)
	}
	if c.Start == nil {
		c.Start = func() int { return -1 }
	}
	c.Mutate(s.Adds, s.Rems)
	keyed := Keyed(s.Kind)
	obj := c.Obj.(via.In)
	c.Load = func(keys []int) error {
		var sb strings.Builder
		seen := map[int]bool{}
		for _, k := range keys {
			if keyed && seen[k] {
				continue
			}
			seen[k] = true
			if sb.Len() > 0 {
				sb.WriteByte(',')
			}
			if keyed {
				fmt.Fprintf(&sb, "%q:%d", strconv.Itoa(k), val(k))
			} else {
				fmt.Fprintf(&sb, "%d", k)
			}
		}
		if keyed {
			return via.Auto(obj, []byte("{"+sb.String()+"}"))
		}
		return via.Auto(obj, []byte("["+sb.String()+"]"))
	}
	return c
}
