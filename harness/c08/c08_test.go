// C08 — iterators are cursors over positions -1..n of the container's sequence.
package c08

import (
	"fmt"
	"slices"
	"testing"

	"pgregory.net/rapid"

	"verif/harness/internal/dom"
	"verif/harness/internal/iters"
	"verif/harness/internal/pbt"
)

func TestMain(m *testing.M) { pbt.Main(m, "C08") }

// Pred is a predicate on (index or key, value) from a small family.
type Pred struct {
	T string `json:"t"` // true | false | vmod | kmod | kge | veq
	A int    `json:"a,omitempty"`
	B int    `json:"b,omitempty"`
}

func (p Pred) f() func(k, v int) bool {
	switch p.T {
	case "true":
		return func(int, int) bool { return true }
	case "false":
		return func(int, int) bool { return false }
	case "vmod":
		return func(_, v int) bool { return ((v%p.A)+p.A)%p.A == p.B }
	case "kmod":
		return func(k, _ int) bool { return ((k%p.A)+p.A)%p.A == p.B }
	case "kge":
		return func(k, _ int) bool { return k >= p.A }
	case "veq":
		return func(_, v int) bool { return v == p.A }
	}
	panic("bad predicate " + p.T)
}

type Call struct {
	C string `json:"c"` // next prev begin end first last nextto prevto
	P *Pred  `json:"p,omitempty"`
}

type Case struct {
	Spec  iters.Spec `json:"spec"`
	Calls []Call     `json:"calls"`
	// Rewound-after-mutation cases (Stale): Pre is driven on the iterator first,
	// then Adds2/Rems2 are applied to the container, then Calls — which start with
	// one of the absolute jumps Begin/End/First/Last ("resets the iterator to its
	// initial state", "moves the iterator to the first element", ...) — are driven
	// on the SAME iterator against the container's new sequence.  The library's own
	// tests use iterators this way (made on an empty container, filled, rewound).
	Stale bool   `json:"stale,omitempty"`
	Pre   []Call `json:"pre,omitempty"`
	Adds2 []int  `json:"adds2,omitempty"`
	Rems2 []int  `json:"rems2,omitempty"`
	Load2 bool   `json:"load2,omitempty"` // the change is a JSON load of Adds2 (FromJSON / UnmarshalJSON / json.Unmarshal) instead of insertions and removals
}

func check(c Case) (pbt.Info, error) {
	var info pbt.Info
	cont := iters.Build(c.Spec)
	seq := cont.Seq()
	n := len(seq)
	cur := cont.Iterator()
	p := cont.Start()
	if p >= 0 {
		// IteratorAt: the iterator is born on an element; its Key/Value are readable at once
		if k, v := cur.Pos(), cur.F.Value(); k != seq[p].K || v != seq[p].V {
			return info, fmt.Errorf("%s n=%d IteratorAt(node of key %d): Key()/Value() = (%d,%d), sequence has (%d,%d) at position %d", c.Spec.Kind, n, *c.Spec.At, k, v, seq[p].K, seq[p].V, p)
		}
		info.Label("iterator-at-node")
	}
	moves, reversalAtSentinel, restartAtEnd := 0, false, false
	lastDir := 0
	drive := func(calls []Call, phase string) error {
		for i, call := range calls {
			var got, want bool
			hasRet := true
			dir := 0
			switch call.C {
			case "next":
				got = cur.F.Next()
				if p < n {
					p++
				}
				dir = 1
			case "prev":
				got = cur.R.Prev()
				if p > -1 {
					p--
				}
				dir = -1
			case "begin":
				if p >= n-1 {
					restartAtEnd = true
				}
				cur.F.Begin()
				p = -1
				hasRet = false
			case "end":
				cur.R.End()
				p = n
				hasRet = false
			case "first":
				if p >= n-1 {
					restartAtEnd = true
				}
				got = cur.F.First()
				p = min(0, n)
				if n == 0 {
					p = 0 // Begin then Next on an empty container: position n == 0
				}
			case "last":
				got = cur.R.Last()
				p = n - 1
			case "nextto":
				f := call.P.f()
				got = cur.F.NextTo(f)
				q := p + 1
				for q < n && !f(seq[q].K, seq[q].V) {
					q++
				}
				p = min(q, n)
				dir = 1
			case "prevto":
				f := call.P.f()
				got = cur.R.PrevTo(f)
				q := p - 1
				for q >= 0 && !f(seq[q].K, seq[q].V) {
					q--
				}
				p = max(q, -1)
				dir = -1
			default:
				return fmt.Errorf("bad call %q", call.C)
			}
			want = p >= 0 && p < n
			if hasRet && got != want {
				return fmt.Errorf("%s n=%d "+phase+"call %d %s: returned %v, cursor model is at position %d (want %v)", c.Spec.Kind, n, i, call.C, got, p, want)
			}
			if want && hasRet {
				if k, v := cur.Pos(), cur.F.Value(); k != seq[p].K || v != seq[p].V {
					what := "Index()"
					if iters.Keyed(c.Spec.Kind) {
						what = "Key()"
					}
					return fmt.Errorf("%s n=%d "+phase+"call %d %s: at position %d %s/Value() = (%d,%d), sequence has (%d,%d)", c.Spec.Kind, n, i, call.C, p, what, k, v, seq[p].K, seq[p].V)
				}
			}
			if dir != 0 {
				moves++
				if lastDir != 0 && dir != lastDir && (p <= 0 || p >= n-1) {
					reversalAtSentinel = true
				}
				lastDir = dir
			}
		}
		return nil
	}
	if c.Stale {
		if err := drive(c.Pre, "(before the mutation) "); err != nil {
			return info, err
		}
		if c.Load2 {
			if err := cont.Load(c.Adds2); err != nil {
				return info, fmt.Errorf("%s: loading %v failed: %v", c.Spec.Kind, c.Adds2, err)
			}
			info.Label("rewound-after-json-load")
		} else {
			cont.Mutate(c.Adds2, c.Rems2)
		}
		seq = cont.Seq()
		n = len(seq)
		if len(c.Calls) == 0 || !slices.Contains([]string{"begin", "end", "first", "last"}, c.Calls[0].C) {
			return info, nil // nothing is claimed about an iterator that is not rewound after a mutation
		}
		moves, reversalAtSentinel, restartAtEnd, lastDir = 0, false, false, 0
		info.Label("rewound-after-mutation:" + c.Calls[0].C)
		if err := drive(c.Calls, "(iterator rewound after a mutation) "); err != nil {
			return info, err
		}
	} else if err := drive(c.Calls, ""); err != nil {
		return info, err
	}
	info.NonTrivial = n >= 1 && moves >= 3 && reversalAtSentinel
	if iters.ForwardOnly(c.Spec.Kind) {
		// no backward half: the analogue of a reversal is a restart (Begin/First) issued at or next to the end sentinel
		info.NonTrivial = n >= 1 && moves >= 3 && restartAtEnd
		if restartAtEnd {
			info.Label("restart-at-end")
		}
	}
	if n == 0 {
		info.Label("empty")
	}
	if n == 1 {
		info.Label("single")
	}
	if reversalAtSentinel {
		info.Label("reversal-at-or-next-to-sentinel")
	}
	return info, nil
}

var ringCaps = []int{1, 2, 3, 5, 8}

func genSpec(t *rapid.T, kind string) iters.Spec {
	s := iters.Spec{Kind: kind}
	switch kind {
	case "priorityqueue", "binaryheap":
		// heaps also with many-to-one orders: distinct elements that tie (the
		// iterator must still walk exactly the Values() sequence)
		s.Cmp = dom.AllCmps[rapid.IntRange(0, len(dom.AllCmps)-1).Draw(t, "cmp")]
	case "treeset", "treemap", "redblacktree", "avltree", "btree":
		s.Cmp = dom.TotalCmps[rapid.IntRange(0, len(dom.TotalCmps)-1).Draw(t, "cmp")]
	case "treebidimap":
		s.Cmp = dom.TotalCmps[rapid.IntRange(0, len(dom.TotalCmps)-1).Draw(t, "cmp")]
	}
	if kind == "btree" {
		s.Order = []int{3, 4, 5, 7, 9, 16, 33, 129, 258, 300, 512}[rapid.IntRange(0, 10).Draw(t, "order")]
	}
	if kind == "circularbuffer" {
		s.Cap = ringCaps[rapid.IntRange(0, len(ringCaps)-1).Draw(t, "cap")]
	}
	maxN, hi := 12, 30
	switch rapid.IntRange(0, 19).Draw(t, "big") {
	case 0, 1:
		maxN = 40
	case 2: // hundreds of elements: 3rd/4th B-tree level, heap index >= 63, tree height > 7
		maxN, hi = 400, 2000
	}
	s.Adds = rapid.SliceOfN(rapid.IntRange(0, hi), 0, maxN).Draw(t, "adds")
	if maxN == 400 {
		s.Adds = append(s.Adds, rapid.SliceOfN(rapid.IntRange(0, hi), 40, 200).Draw(t, "more")...)
	}
	if kind == "btree" && s.Order > 128 && rapid.IntRange(0, 3).Draw(t, "fill-wide-node") == 2 {
		// a node with hundreds of entries (in-node positions beyond 127 and 255)
		n := rapid.IntRange(s.Order/2, 2*s.Order).Draw(t, "wide-fill")
		start, stride := rapid.IntRange(0, 50).Draw(t, "wide-start"), rapid.IntRange(1, 3).Draw(t, "wide-stride")
		s.Adds = s.Adds[:min(len(s.Adds), 5)]
		for i := 0; i < n; i++ {
			s.Adds = append(s.Adds, start+i*stride)
		}
	}
	s.Rems = rapid.SliceOfN(rapid.IntRange(0, hi), 0, 3).Draw(t, "rems")
	switch kind {
	case "arraylist", "singlylinkedlist", "doublylinkedlist":
		if rapid.IntRange(0, 2).Draw(t, "front") == 0 {
			s.Front = rapid.SliceOfN(rapid.IntRange(0, hi), 1, 7).Draw(t, "front-values")
		}
	}
	if kind == "redblacktree" && len(s.Adds) > 0 && rapid.IntRange(0, 3).Draw(t, "at") == 0 {
		at := s.Adds[rapid.IntRange(0, len(s.Adds)-1).Draw(t, "atkey")]
		s.At = &at
	}
	return s
}

func genPred(t *rapid.T) *Pred {
	switch rapid.IntRange(0, 5).Draw(t, "pred") {
	case 0:
		return &Pred{T: "true"}
	case 1:
		return &Pred{T: "false"}
	case 2:
		a := rapid.IntRange(2, 4).Draw(t, "m")
		return &Pred{T: "vmod", A: a, B: rapid.IntRange(0, a-1).Draw(t, "r")}
	case 3:
		a := rapid.IntRange(2, 4).Draw(t, "m")
		return &Pred{T: "kmod", A: a, B: rapid.IntRange(0, a-1).Draw(t, "r")}
	case 4:
		return &Pred{T: "kge", A: []int{1, 1, 10, 100}[rapid.IntRange(0, 3).Draw(t, "scale")] * rapid.IntRange(0, 12).Draw(t, "th")}
	default:
		return &Pred{T: "veq", A: rapid.IntRange(0, 30).Draw(t, "x") * []int{1, 1, 67}[rapid.IntRange(0, 2).Draw(t, "scale")]}
	}
}

func gen(kind string) func(t *rapid.T) Case {
	fwdOnly := iters.ForwardOnly(kind)
	return func(t *rapid.T) Case {
		c := Case{Spec: genSpec(t, kind)}
		maxCalls := 24
		if len(c.Spec.Adds) > 40 {
			maxCalls = 90 // long walks over large containers
		}
		n := rapid.IntRange(0, maxCalls).Draw(t, "ncalls")
		for i := 0; i < n; i++ {
			var w int
			if fwdOnly {
				w = []int{0, 1, 3, 5, 7}[dom.Weighted(t, "call", 1, 40, 6, 8, 14)]
			} else {
				w = dom.Weighted(t, "call", 1, 26, 26, 5, 5, 6, 6, 10, 10)
			}
			switch w {
			case 0:
			case 1:
				c.Calls = append(c.Calls, Call{C: "next"})
			case 2:
				c.Calls = append(c.Calls, Call{C: "prev"})
			case 3:
				c.Calls = append(c.Calls, Call{C: "begin"})
			case 4:
				c.Calls = append(c.Calls, Call{C: "end"})
			case 5:
				c.Calls = append(c.Calls, Call{C: "first"})
			case 6:
				c.Calls = append(c.Calls, Call{C: "last"})
			case 7:
				c.Calls = append(c.Calls, Call{C: "nextto", P: genPred(t)})
			case 8:
				c.Calls = append(c.Calls, Call{C: "prevto", P: genPred(t)})
			}
		}
		return c
	}
}

func TestGenerated(t *testing.T) {
	for _, kind := range iters.Kinds {
		pbt.Run(t, pbt.Target[Case]{Name: kind, Checks: 25000, Gen: gen(kind), Check: check})
	}
}

// genStale: the iterator is made first (possibly on an empty container), walked,
// the container is then changed, and the same iterator is rewound with an absolute
// jump and walked again.
func genStale(kind string) func(t *rapid.T) Case {
	g := gen(kind)
	fwdOnly := iters.ForwardOnly(kind)
	return func(t *rapid.T) Case {
		c := g(t)
		c.Stale = true
		if rapid.IntRange(0, 3).Draw(t, "made-on-empty") == 0 {
			c.Spec.Adds, c.Spec.Rems, c.Spec.At = nil, nil, nil
		}
		c.Pre = g(t).Calls
		c.Adds2 = rapid.SliceOfN(rapid.IntRange(0, 30), 0, 12).Draw(t, "adds2")
		c.Rems2 = rapid.SliceOfN(rapid.IntRange(0, 30), 0, 6).Draw(t, "rems2")
		if rapid.IntRange(0, 4).Draw(t, "same-size") == 0 && len(c.Adds2) > 0 {
			// as many leave as arrive: caches keyed on the size stay "valid"
			c.Rems2 = slices.Clone(c.Spec.Adds[:min(len(c.Spec.Adds), len(c.Adds2))])
		}
		c.Load2 = rapid.IntRange(0, 4).Draw(t, "json-load") == 0
		jumps := []string{"begin", "first", "end", "last"}
		if fwdOnly {
			jumps = jumps[:2]
		}
		c.Calls = append([]Call{{C: jumps[rapid.IntRange(0, len(jumps)-1).Draw(t, "jump")]}}, c.Calls...)
		return c
	}
}

func TestRewoundAfterMutation(t *testing.T) {
	for _, kind := range iters.Kinds {
		pbt.Run(t, pbt.Target[Case]{Name: kind + "/rewound-after-mutation", Checks: 6000, Gen: genStale(kind), Check: check})
	}
}

// TestExhaustive: every call sequence of a fixed length over the eight calls
// (forward-only types: the four forward calls) for n in {0,1,2,3} on every type.
func TestExhaustive(t *testing.T) {
	L := 5
	if pbt.Thorough() {
		L = 6
	}
	odd := &Pred{T: "vmod", A: 2, B: 1}
	full := []Call{{C: "next"}, {C: "prev"}, {C: "begin"}, {C: "end"}, {C: "first"}, {C: "last"}, {C: "nextto", P: odd}, {C: "prevto", P: odd}}
	fwd := []Call{{C: "next"}, {C: "begin"}, {C: "first"}, {C: "nextto", P: odd}}
	note := fmt.Sprintf("every call sequence of length %d over Next/Prev/Begin/End/First/Last/NextTo/PrevTo (forward-only types: the forward half, length %d) for n in {0,1,2,3} on all 18 iterator types", L, L+2)
	pbt.Enumerate(t, pbt.Target[Case]{Name: "exhaustive-call-sequences", Check: check}, note, func(yield func(Case) bool) {
		idx := 0
		for _, kind := range iters.Kinds {
			alphabet, l := full, L
			if iters.ForwardOnly(kind) {
				alphabet, l = fwd, L+2
			}
			total := 1
			for i := 0; i < l; i++ {
				total *= len(alphabet)
			}
			for n := 0; n <= 3; n++ {
				spec := iters.Spec{Kind: kind, Cmp: dom.Nat, Cap: 3, Order: 3, Adds: []int{4, 2, 7}[:n]}
				if kind == "circularbuffer" && n == 3 {
					spec.Adds = []int{9, 4, 2, 7} // wrapped
				}
				for code := 0; code < total; code++ {
					idx++
					if !pbt.Mine(idx) {
						continue
					}
					c := Case{Spec: spec, Calls: make([]Call, l)}
					x := code
					for i := 0; i < l; i++ {
						c.Calls[i] = alphabet[x%len(alphabet)]
						x /= len(alphabet)
					}
					if !yield(c) {
						return
					}
				}
			}
		}
	})
}
