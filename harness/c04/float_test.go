package c04

// TreeSet built with the DEFAULT constructor (treeset.New, cmp.Compare) on
// float64 members including NaN, the two zeros and the infinities: cmp.Compare
// is a total order (NaN first, equal to itself; -0 == +0), so NaN is an
// ordinary member.  HashSet/LinkedHashSet are not included (== never equates NaN).

import (
	"cmp"
	"fmt"
	"math"
	"slices"
	"testing"

	"github.com/emirpasic/gods/v2/sets/treeset"
	"pgregory.net/rapid"

	"verif/harness/internal/dom"
	"verif/harness/internal/pbt"
)

var floatDomain = []float64{math.NaN(), math.Inf(-1), -2.5, -1, math.Copysign(0, -1), 0, 0.5, 1, 2, 3.25, 1e300, math.Inf(1)}

type FOp struct {
	O  string `json:"o"` // add | remove | clear
	Ks []int  `json:"ks,omitempty"`
}

type FCase struct {
	Init []int `json:"init"` // indices into the float domain, passed to treeset.New(values...)
	Ops  []FOp `json:"ops"`
}

func fl(i int) float64 { return floatDomain[((i%len(floatDomain))+len(floatDomain))%len(floatDomain)] }

func checkFloat(c FCase) (pbt.Info, error) {
	var info pbt.Info
	toF := func(is []int) []float64 {
		out := make([]float64, len(is))
		for i, x := range is {
			out[i] = fl(x)
		}
		return out
	}
	s := treeset.New(toF(c.Init)...)
	var m []float64 // sorted by cmp.Compare, one representative per class
	find := func(k float64) (int, bool) { return slices.BinarySearchFunc(m, k, cmp.Compare[float64]) }
	add := func(k float64) {
		if j, ok := find(k); !ok {
			m = slices.Insert(m, j, k)
		}
	}
	for _, k := range toF(c.Init) {
		add(k)
	}
	unusual, removed := false, false
	observe := func(step int, what string) error {
		if s.Size() != len(m) || s.Empty() != (len(m) == 0) {
			return fmt.Errorf("treeset.New[float64] step %d %s: Size()=%d Empty()=%v, model has %d members", step, what, s.Size(), s.Empty(), len(m))
		}
		vals := s.Values()
		if len(vals) != len(m) {
			return fmt.Errorf("treeset.New[float64] step %d %s: Values()=%v, model %v", step, what, vals, m)
		}
		for i := range m {
			if cmp.Compare(vals[i], m[i]) != 0 {
				return fmt.Errorf("treeset.New[float64] step %d %s: Values()=%v, model %v", step, what, vals, m)
			}
		}
		for _, probe := range floatDomain {
			_, want := find(probe)
			if got := s.Contains(probe); got != want {
				return fmt.Errorf("treeset.New[float64] step %d %s: Contains(%v)=%v, want %v (members %v)", step, what, probe, got, want, m)
			}
		}
		return nil
	}
	if err := observe(-1, "New"); err != nil {
		return info, err
	}
	for i, op := range c.Ops {
		ks := toF(op.Ks)
		for _, k := range ks {
			if math.IsNaN(k) || math.IsInf(k, 0) || k == 0 {
				unusual = true
			}
		}
		switch op.O {
		case "add":
			for _, k := range ks {
				add(k)
			}
			s.Add(ks...)
		case "remove":
			for _, k := range ks {
				if j, ok := find(k); ok {
					m = slices.Delete(m, j, j+1)
					removed = true
				}
			}
			s.Remove(ks...)
		case "clear":
			m = nil
			s.Clear()
		default:
			return info, fmt.Errorf("bad op %q", op.O)
		}
		if err := observe(i, fmt.Sprintf("%s(%v)", op.O, ks)); err != nil {
			return info, err
		}
	}
	info.NonTrivial = unusual && removed
	return info, nil
}

func genFloat(t *rapid.T) FCase {
	ks := func(label string, maxN int) []int {
		return rapid.SliceOfN(rapid.IntRange(0, len(floatDomain)-1), 0, maxN).Draw(t, label)
	}
	c := FCase{Init: ks("init", 5)}
	for chunk := 0; chunk < 3; chunk++ {
		ops := rapid.SliceOfN(rapid.Custom(func(t *rapid.T) FOp {
			switch dom.Weighted(t, "op", 50, 45, 5) {
			case 0:
				return FOp{O: "add", Ks: ks("ks", 5)}
			case 1:
				return FOp{O: "remove", Ks: ks("ks", 3)}
			default:
				return FOp{O: "clear"}
			}
		}), 0, 10).Draw(t, "ops")
		c.Ops = append(c.Ops, ops...)
	}
	return c
}

func TestDefaultConstructorFloatMembers(t *testing.T) {
	pbt.Run(t, pbt.Target[FCase]{Name: "treeset/default-comparator-float64", Checks: 6000, Gen: genFloat, Check: checkFloat})
}
