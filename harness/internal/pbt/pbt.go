// Package pbt is the small framework shared by all property packages.
//
// A check is a Target: a rapid generator producing a plain, JSON-serialisable
// case value, and a pure Check function that builds fresh containers, runs the
// case against the library and applies the oracle.  The framework counts what
// was generated (evaluations, distinct non-trivial cases, label histogram,
// samples), runs saved regression cases, replays a single saved case without
// the property library, and records violations with a replay file.
package pbt

import (
	"encoding/binary"
	"encoding/json"
	"flag"
	"fmt"
	"hash/fnv"
	"os"
	"path/filepath"
	"runtime/debug"
	"slices"
	"sort"
	"strconv"
	"strings"
	"sync"
	"testing"
	"time"

	"pgregory.net/rapid"
)

// Info is what a Check reports about a case that passed.
type Info struct {
	NonTrivial bool
	Labels     []string
}

// Label appends labels (convenience for chaining inside checks).
func (i *Info) Label(l ...string) { i.Labels = append(i.Labels, l...) }

// KeyedError marks a failure as an instance of a named finding class, so that a
// `known:` line in KNOWN_FINDINGS.txt can recognise exactly that class.
type KeyedError struct {
	Key string
	Err error
}

func (k *KeyedError) Error() string { return k.Err.Error() }
func (k *KeyedError) Unwrap() error { return k.Err }

// Keyed wraps err with a finding key.
func Keyed(key string, err error) error {
	if err == nil {
		return nil
	}
	return &KeyedError{Key: key, Err: err}
}

// Target is one generator/oracle pair of a property.
type Target[C any] struct {
	Name   string
	Checks int // generated cases per shard in the quick tier (scaled by VERIF_SCALE)
	Gen    func(t *rapid.T) C
	Check  func(c C) (Info, error)
	// Before, when set, is called with the canonical JSON of every case just
	// before Check (used by C17 to leave a trail for unrecoverable crashes).
	Before func(caseJSON []byte)
}

// ReplayFile is the on-disk form of a single case.
type ReplayFile struct {
	Property string          `json:"property"`
	Target   string          `json:"target"`
	Error    string          `json:"error,omitempty"`
	Key      string          `json:"key,omitempty"`
	Note     string          `json:"note,omitempty"`
	Case     json.RawMessage `json:"case"`
}

type Violation struct {
	Target  string `json:"target"`
	Replay  string `json:"replay"`
	Message string `json:"message"`
	Key     string `json:"key,omitempty"`
	Source  string `json:"source"` // generated | regression | replay | exhaustive
}

type TargetStats struct {
	Evaluations int64            `json:"evaluations"`
	NonTrivial  int64            `json:"nontrivial"`
	Regressions int64            `json:"regressions"`
	Exhaustive  int64            `json:"exhaustive_cases"`
	ExhNote     string           `json:"exhaustive_note,omitempty"`
	Labels      map[string]int64 `json:"labels,omitempty"`
	Samples     []Sample         `json:"samples,omitempty"`
	WallS       float64          `json:"wall_s"`
}

type Sample struct {
	Target string          `json:"target"`
	Why    string          `json:"why"`
	Case   json.RawMessage `json:"case"`
}

type Output struct {
	Property   string                  `json:"property"`
	Tier       string                  `json:"tier"`
	Seed       uint64                  `json:"seed"`
	Shard      int                     `json:"shard"`
	Targets    map[string]*TargetStats `json:"targets"`
	Violations []Violation             `json:"violations"`
	Extra      map[string]any          `json:"extra,omitempty"`
	Sets       map[string][]string     `json:"sets,omitempty"`
	Max        map[string]float64      `json:"max,omitempty"`
	Completed  bool                    `json:"completed"`
}

// SetMax records a measurement that the driver merges across shards by maximum.
func SetMax(key string, v float64) {
	mu.Lock()
	defer mu.Unlock()
	if out.Max == nil {
		out.Max = map[string]float64{}
	}
	if v > out.Max[key] {
		out.Max[key] = v
	}
}

var sets = map[string]map[string]struct{}{}

// AddToSet records membership of items in a named coverage set; the driver
// unions the sets of all shards and reports their sizes (grouped by the text
// before the first '|' of each item).
func AddToSet(name string, items ...string) {
	mu.Lock()
	defer mu.Unlock()
	m := sets[name]
	if m == nil {
		m = map[string]struct{}{}
		sets[name] = m
	}
	for _, it := range items {
		m[it] = struct{}{}
	}
}

var (
	mu       sync.Mutex
	out      = &Output{Targets: map[string]*TargetStats{}, Extra: map[string]any{}}
	hashes   = map[uint64]struct{}{}
	property string

	tier       = envOr("VERIF_TIER", "quick")
	shardSeed  = envU64("VERIF_SHARD_SEED", 1)
	shard      = int(envU64("VERIF_SHARD", 0))
	shards     = int(envU64("VERIF_SHARDS", 1))
	scale      = envF("VERIF_SCALE", 1)
	outPath    = os.Getenv("VERIF_OUT")
	replayPath = os.Getenv("VERIF_REPLAY")
	verifRoot  = envOr("VERIF_ROOT", "/verif")
	onlyTarget = os.Getenv("VERIF_TARGET")
)

func envOr(k, d string) string {
	if v := os.Getenv(k); v != "" {
		return v
	}
	return d
}
func envU64(k string, d uint64) uint64 {
	if v := os.Getenv(k); v != "" {
		if n, err := strconv.ParseUint(v, 10, 64); err == nil {
			return n
		}
	}
	return d
}
func envF(k string, d float64) float64 {
	if v := os.Getenv(k); v != "" {
		if n, err := strconv.ParseFloat(v, 64); err == nil {
			return n
		}
	}
	return d
}

// Tier returns "quick" or "thorough".
func Tier() string { return tier }

// Thorough reports whether the thorough tier is running.
func Thorough() bool { return tier == "thorough" }

// Size scales a container-size bound of a "long"/"large"/"soak" generator: the
// thorough tier explores containers up to four times as large as the quick tier
// (a case found there replays in either tier: a case is a value).
func Size(n int) int {
	if Thorough() {
		return 4 * n
	}
	return n
}

// Shard returns the shard index of this process.
func Shard() int { return shard }

// Mine reports whether the idx-th item of a deterministic enumeration belongs
// to this shard (enumerations are partitioned round-robin over the shards).
func Mine(idx int) bool { return shards <= 1 || idx%shards == shard }

// Scale returns the case-count multiplier of this run.
func Scale() float64 { return scale }

// SetExtra records an additional property-specific measurement in the output.
func SetExtra(key string, v any) {
	mu.Lock()
	defer mu.Unlock()
	out.Extra[key] = v
}

// Main is called from TestMain of every property package.
func Main(m *testing.M, prop string) { MainWith(m, prop, nil) }

// MainWith is Main with a hook that runs after the tests and before the
// statistics are written (C17 restores the captured descriptors there).
func MainWith(m *testing.M, prop string, after func()) {
	property = prop
	out.Property = prop
	out.Tier = tier
	out.Seed = shardSeed
	out.Shard = shard
	flag.Parse()
	code := m.Run()
	if after != nil {
		after()
	}
	out.Completed = true
	Flush()
	os.Exit(code)
}

// Flush writes the statistics file (also called by watchdogs before aborting).
func Flush() {
	mu.Lock()
	defer mu.Unlock()
	if outPath == "" {
		return
	}
	out.Sets = map[string][]string{}
	for name, m := range sets {
		l := make([]string, 0, len(m))
		for k := range m {
			l = append(l, k)
		}
		sort.Strings(l)
		out.Sets[name] = l
	}
	b, _ := json.Marshal(out)
	_ = os.WriteFile(outPath, b, 0o644)
	hb := make([]byte, 0, 8*len(hashes))
	for h := range hashes {
		hb = binary.LittleEndian.AppendUint64(hb, h)
	}
	_ = os.WriteFile(outPath+".hashes", hb, 0o644)
}

func stats(name string) *TargetStats {
	s := out.Targets[name]
	if s == nil {
		s = &TargetStats{Labels: map[string]int64{}}
		out.Targets[name] = s
	}
	return s
}

func splitmix(x uint64) uint64 {
	x += 0x9e3779b97f4a7c15
	x = (x ^ (x >> 30)) * 0xbf58476d1ce4e5b9
	x = (x ^ (x >> 27)) * 0x94d049bb133111eb
	return x ^ (x >> 31)
}

func hashOf(target string, b []byte) uint64 {
	h := fnv.New64a()
	h.Write([]byte(target))
	h.Write([]byte{0})
	h.Write(b)
	return h.Sum64()
}

// SeedFor derives the rapid seed of one target in this shard.
func SeedFor(target string) uint64 {
	s := splitmix(shardSeed ^ hashOf(target, nil))
	if s == 0 {
		s = 1
	}
	return s
}

func recordViolation(v Violation) {
	mu.Lock()
	defer mu.Unlock()
	out.Violations = append(out.Violations, v)
}

func writeReplay(target string, caseJSON []byte, err error) string {
	key := ""
	if ke, ok := err.(*KeyedError); ok {
		key = ke.Key
	}
	rf := ReplayFile{Property: property, Target: target, Error: err.Error(), Key: key, Case: caseJSON}
	b, _ := json.MarshalIndent(rf, "", " ")
	dir := filepath.Join(verifRoot, "replays", property)
	_ = os.MkdirAll(dir, 0o755)
	p := filepath.Join(dir, fmt.Sprintf("%s-%016x.json", sanitize(target), hashOf(target, caseJSON)))
	_ = os.WriteFile(p, b, 0o644)
	return p
}

func sanitize(s string) string {
	return strings.Map(func(r rune) rune {
		if r >= 'a' && r <= 'z' || r >= 'A' && r <= 'Z' || r >= '0' && r <= '9' || r == '-' || r == '_' {
			return r
		}
		return '_'
	}, s)
}

// safeCheck runs Check and converts a panic into an error carrying the stack.
func safeCheck[C any](tg *Target[C], c C) (info Info, err error) {
	defer func() {
		if r := recover(); r != nil {
			err = fmt.Errorf("panic: %v\n%s", r, trimStack(debug.Stack()))
		}
	}()
	return tg.Check(c)
}

// trimStack keeps the frames inside the library and the harness and removes
// everything that varies between two runs of the same case (argument values,
// pc offsets, goroutine ids): rapid's shrinker insists on identical messages.
func trimStack(b []byte) string {
	lines := strings.Split(string(b), "\n")
	var keep []string
	for _, l := range lines {
		if !(strings.Contains(l, "/repo/") || strings.Contains(l, "emirpasic") || strings.Contains(l, "verif/harness")) {
			continue
		}
		if strings.Contains(l, "internal/pbt") {
			continue
		}
		l = strings.TrimSpace(l)
		if strings.HasPrefix(l, "/") { // file:line +0x...
			if i := strings.Index(l, " +0x"); i >= 0 {
				l = l[:i]
			}
		} else if i := strings.LastIndex(l, "("); i >= 0 { // function(args)
			l = l[:i]
		}
		keep = append(keep, l)
		if len(keep) >= 12 {
			break
		}
	}
	return strings.Join(keep, "\n")
}

func keyOf(err error) string {
	if ke, ok := err.(*KeyedError); ok {
		return ke.Key
	}
	return ""
}

// regressionFiles lists the saved cases of the property.  VERIF_SKIP_SEED_REGRESSIONS=1
// leaves out the cases harvested from seeded changes (seed-*.json): it is set when the
// generated search alone is to be measured against a new seeded change.
func regressionFiles() []string {
	files, _ := filepath.Glob(filepath.Join(verifRoot, "regressions", property, "*.json"))
	sort.Strings(files)
	if os.Getenv("VERIF_SKIP_SEED_REGRESSIONS") == "1" {
		files = slices.DeleteFunc(files, func(f string) bool { return strings.HasPrefix(filepath.Base(f), "seed-") })
	}
	return files
}

// Run executes one target: replay mode, regression cases, then generation.
func Run[C any](t *testing.T, tg Target[C]) {
	t.Helper()
	if onlyTarget != "" && onlyTarget != tg.Name {
		return
	}
	start := time.Now()
	defer func() {
		mu.Lock()
		stats(tg.Name).WallS += time.Since(start).Seconds()
		mu.Unlock()
	}()

	if replayPath != "" {
		runFile(t, &tg, replayPath, "replay")
		return
	}

	// regression tier: saved minimal cases, run first; the files are dealt out over
	// the shards (each file is run by exactly one shard)
	for idx, f := range regressionFiles() {
		if Mine(idx) {
			runFile(t, &tg, f, "regression")
		}
	}

	n := int(float64(tg.Checks) * scale)
	if n < 1 {
		n = 1
	}
	_ = flag.Set("rapid.checks", strconv.Itoa(n))
	_ = flag.Set("rapid.seed", strconv.FormatUint(SeedFor(tg.Name), 10))
	_ = flag.Set("rapid.nofailfile", "true")

	var (
		failed   bool
		lastJSON []byte
		lastErr  error
	)
	ok := t.Run("gen", func(t *testing.T) {
		rapid.Check(t, func(rt *rapid.T) {
			c := tg.Gen(rt)
			b, jerr := json.Marshal(c)
			if jerr != nil {
				panic("pbt: case not serialisable: " + jerr.Error())
			}
			if tg.Before != nil {
				tg.Before(b)
			}
			info, err := safeCheck(&tg, c)
			if err != nil {
				failed = true
				lastJSON, lastErr = b, err
				rt.Fatalf("%v", err)
			}
			if failed {
				return // shrinking phase: do not count
			}
			account(tg.Name, b, info, true)
		})
	})
	if lastErr != nil {
		p := writeReplay(tg.Name, lastJSON, lastErr)
		recordViolation(Violation{Target: tg.Name, Replay: p, Message: firstLine(lastErr.Error()), Key: keyOf(lastErr), Source: "generated"})
	} else if !ok {
		// rapid itself failed (e.g. could not generate): not a violation, an inconclusive run
		recordViolation(Violation{Target: tg.Name, Replay: "", Message: "harness failure without a failing case (see log)", Source: "harness"})
	}
}

func firstLine(s string) string {
	if i := strings.IndexByte(s, '\n'); i >= 0 {
		s = s[:i]
	}
	if len(s) > 400 {
		s = s[:400] + "…"
	}
	return s
}

// account records one passing case.  b is its canonical JSON, or a function
// producing it lazily (enumerations marshal only the cases kept as samples).
func account(target string, b []byte, info Info, hashIt bool) {
	accountLazy(target, func() []byte { return b }, info, hashIt)
}

func accountLazy(target string, js func() []byte, info Info, hashIt bool) {
	mu.Lock()
	defer mu.Unlock()
	s := stats(target)
	s.Evaluations++
	if s.Evaluations == 1 {
		addSample(s, target, "first", js())
	}
	if info.NonTrivial {
		s.NonTrivial++
		if hashIt {
			hashes[hashOf(target, js())] = struct{}{}
		}
		if s.NonTrivial == 1 {
			addSample(s, target, "first non-trivial", js())
		}
	}
	for _, l := range info.Labels {
		s.Labels[l]++
		if s.Labels[l] == 1 && len(s.Samples) < 6 {
			addSample(s, target, "first with label "+l, js())
		}
	}
}

func addSample(s *TargetStats, target, why string, b []byte) {
	if len(b) > 6000 {
		return
	}
	for _, x := range s.Samples {
		if string(x.Case) == string(b) {
			return
		}
	}
	s.Samples = append(s.Samples, Sample{Target: target, Why: why, Case: append([]byte(nil), b...)})
}

func runFile[C any](t *testing.T, tg *Target[C], path, source string) {
	raw, err := os.ReadFile(path)
	if err != nil {
		if source == "replay" {
			t.Fatalf("cannot read replay file: %v", err)
		}
		return
	}
	var rf ReplayFile
	if err := json.Unmarshal(raw, &rf); err != nil {
		if source == "replay" {
			t.Fatalf("cannot decode replay file: %v", err)
		}
		return
	}
	if rf.Target != tg.Name {
		return
	}
	var c C
	if err := json.Unmarshal(rf.Case, &c); err != nil {
		t.Errorf("cannot decode case in %s: %v", path, err)
		recordViolation(Violation{Target: tg.Name, Replay: "", Message: "undecodable case file " + path, Source: "harness"})
		return
	}
	if tg.Before != nil {
		tg.Before(rf.Case)
	}
	info, cerr := safeCheck(tg, c)
	mu.Lock()
	s := stats(tg.Name)
	s.Regressions++
	mu.Unlock()
	_ = info
	if cerr != nil {
		t.Errorf("%s case %s fails: %v", source, path, cerr)
		recordViolation(Violation{Target: tg.Name, Replay: path, Message: firstLine(cerr.Error()), Key: keyOf(cerr), Source: source})
	} else if source == "replay" {
		t.Logf("replay %s: case passes", path)
	}
}

// Enumerate feeds every case produced by iterate to the target's Check.  It is
// the bounded-exhaustive second generator; the iterator partitions its space
// over the shards with Mine.
func Enumerate[C any](t *testing.T, tg Target[C], note string, iterate func(yield func(C) bool)) {
	t.Helper()
	if onlyTarget != "" && onlyTarget != tg.Name {
		return
	}
	if replayPath != "" {
		runFile(t, &tg, replayPath, "replay")
		return
	}
	start := time.Now()
	var firstErr error
	var firstJSON []byte
	count := int64(0)
	iterate(func(c C) bool {
		js := func() []byte { b, _ := json.Marshal(c); return b }
		if tg.Before != nil {
			tg.Before(js())
		}
		info, err := safeCheck(&tg, c)
		if err != nil {
			firstErr, firstJSON = err, js()
			return false
		}
		count++
		accountLazy(tg.Name, js, info, false) // enumerated cases are distinct by construction
		return true
	})
	mu.Lock()
	s := stats(tg.Name)
	s.Exhaustive += count
	s.ExhNote = note
	s.WallS += time.Since(start).Seconds()
	mu.Unlock()
	if firstErr != nil {
		p := writeReplay(tg.Name, firstJSON, firstErr)
		t.Errorf("exhaustive case fails: %v", firstErr)
		recordViolation(Violation{Target: tg.Name, Replay: p, Message: firstLine(firstErr.Error()), Key: keyOf(firstErr), Source: "exhaustive"})
	}
}

// FuzzCase runs one input of a native fuzz target (also the seed corpus that a
// plain `go test` executes in the quick tier) under panic recovery.  A failure is
// saved as a replay file, recorded as a violation of this run and returned; the
// caller fails its *testing.T / *rapid.T with it.
func FuzzCase[C any](prop, target string, c C, check func(C) (Info, error)) (replay string, err error) {
	tg := Target[C]{Name: target, Check: check}
	if _, err = safeCheck(&tg, c); err == nil {
		return "", nil
	}
	replay = SaveFuzzFailure(prop, target, c, err)
	recordViolation(Violation{Target: target, Replay: replay, Message: firstLine(err.Error()), Key: keyOf(err), Source: "fuzz-corpus"})
	return replay, err
}

// Errf is fmt.Errorf (shorter at call sites of oracles).
func Errf(format string, a ...any) error { return fmt.Errorf(format, a...) }

// ReplayOnly registers a target that produces no cases of its own (they come
// from a native fuzz campaign) but can replay and regression-run saved ones.
func ReplayOnly[C any](t *testing.T, tg Target[C]) {
	t.Helper()
	if replayPath != "" {
		runFile(t, &tg, replayPath, "replay")
		return
	}
	if shard == 0 {
		for _, f := range regressionFiles() {
			runFile(t, &tg, f, "regression")
		}
	}
}

// SaveFuzzFailure writes the JSON replay file of a case found by a native fuzz
// target and returns its path (the fuzz engine's own corpus entry is kept too).
func SaveFuzzFailure(prop, target string, c any, err error) string {
	property = prop
	b, _ := json.Marshal(c)
	return writeReplay(target, b, err)
}
