// C03 — the three lists behave as one mathematical sequence.
package c03

import (
	"encoding/json"
	"fmt"
	"slices"
	"testing"

	"github.com/emirpasic/gods/v2/lists/arraylist"
	"github.com/emirpasic/gods/v2/lists/doublylinkedlist"
	"github.com/emirpasic/gods/v2/lists/singlylinkedlist"
	"github.com/emirpasic/gods/v2/utils"
	"pgregory.net/rapid"

	"verif/harness/internal/dom"
	"verif/harness/internal/pbt"
	"verif/harness/internal/via"
)

func TestMain(m *testing.M) { pbt.Main(m, "C03") }

// Op: add/append/prepend/insert carry Vs; insert/remove/set/swap carry I (and
// J / V); sort carries a comparator id; contains carries the probe list in Vs.
type Op struct {
	O  string `json:"o"`
	I  int    `json:"i,omitempty"`
	J  int    `json:"j,omitempty"`
	V  int    `json:"v,omitempty"`
	Vs []int  `json:"vs,omitempty"`
	C  string `json:"c,omitempty"`
}

type Case struct {
	Init []int `json:"init"` // New(Init...)
	Ops  []Op  `json:"ops"`
}

type list interface {
	Add(values ...int)
	Get(index int) (int, bool)
	Remove(index int)
	Contains(values ...int) bool
	Sort(comparator utils.Comparator[int])
	Swap(i, j int)
	Insert(index int, values ...int)
	Set(index int, value int)
	IndexOf(value int) int
	Empty() bool
	Size() int
	Clear()
	Values() []int
	FromJSON([]byte) error
	UnmarshalJSON([]byte) error
}

type linked interface {
	list
	Append(values ...int)
	Prepend(values ...int)
}

// arrayAsLinked gives ArrayList the two linked-only entry points through their
// sequence-level equivalents (Append = Add, Prepend(vs) = Insert(0, vs...)).
type arrayAsLinked struct{ *arraylist.List[int] }

func (a arrayAsLinked) Append(vs ...int)  { a.Add(vs...) }
func (a arrayAsLinked) Prepend(vs ...int) { a.Insert(0, vs...) }

// applyModel applies op to the abstract sequence.  Sort with a coarse comparator
// is not determined by the model: the caller validates and adopts.
func applyModel(m []int, op Op) []int {
	n := len(m)
	switch op.O {
	case "add", "append":
		return append(m, op.Vs...)
	case "prepend":
		return append(append([]int(nil), op.Vs...), m...)
	case "insert":
		if op.I >= 0 && op.I <= n {
			return slices.Insert(m, op.I, op.Vs...)
		}
	case "remove":
		if op.I >= 0 && op.I < n {
			return slices.Delete(m, op.I, op.I+1)
		}
	case "set":
		if op.I >= 0 && op.I < n {
			m[op.I] = op.V
		} else if op.I == n {
			return append(m, op.V)
		}
	case "swap":
		if op.I >= 0 && op.I < n && op.J >= 0 && op.J < n {
			m[op.I], m[op.J] = m[op.J], m[op.I]
		}
	case "sort":
		return dom.SortedBy(op.C, m)
	case "clear":
		return m[:0]
	case "load":
		return slices.Clone(op.Vs)
	}
	return m
}

const domainHi = 7

func check(c Case) (pbt.Info, error) {
	var info pbt.Info
	names := []string{"ArrayList", "SinglyLinkedList", "DoublyLinkedList"}
	ls := []linked{arrayAsLinked{arraylist.New(c.Init...)}, singlylinkedlist.New(c.Init...), doublylinkedlist.New(c.Init...)}
	models := [][]int{slices.Clone(c.Init), slices.Clone(c.Init), slices.Clone(c.Init)}
	seen := map[string]bool{}
	label := func(l string) {
		if !seen[l] {
			seen[l] = true
			info.Label(l)
		}
	}
	effective := false
	observe := func(step int, what string) error {
		for li, l := range ls {
			m := models[li]
			got := l.Values()
			if !slices.Equal(got, m) && !(len(got) == 0 && len(m) == 0) {
				return fmt.Errorf("%s step %d %s: Values()=%v, sequence model %v", names[li], step, what, got, m)
			}
			if l.Size() != len(m) || l.Empty() != (len(m) == 0) {
				return fmt.Errorf("%s step %d %s: Size()=%d Empty()=%v, model length %d", names[li], step, what, l.Size(), l.Empty(), len(m))
			}
			stride := 1
			if len(m) > 64 {
				stride = len(m)/24 + 1 // long lists: a sample of the interior plus both ends
			}
			for i := -2; i <= len(m)+1; i++ {
				if stride > 1 && i > 3 && i < len(m)-4 && i%stride != 0 {
					continue
				}
				v, ok := l.Get(i)
				if i >= 0 && i < len(m) {
					if !ok || v != m[i] {
						return fmt.Errorf("%s step %d %s: Get(%d)=(%d,%v), want (%d,true)", names[li], step, what, i, v, ok, m[i])
					}
				} else if ok || v != 0 {
					return fmt.Errorf("%s step %d %s: Get(%d)=(%d,%v) out of range, want (0,false)", names[li], step, what, i, v, ok)
				}
			}
			for v := -4; v <= 13; v++ {
				if got, want := l.IndexOf(v), slices.Index(m, v); got != want {
					return fmt.Errorf("%s step %d %s: IndexOf(%d)=%d, want %d in %v", names[li], step, what, v, got, want, m)
				}
			}
			if !l.Contains() {
				return fmt.Errorf("%s step %d %s: Contains() with no arguments = false", names[li], step, what)
			}
		}
		return nil
	}
	if err := observe(-1, "New"); err != nil {
		return info, err
	}
	if len(c.Init) == 0 {
		label("new:no-values")
	}
	for i, op := range c.Ops {
		n := len(models[0])
		switch op.O {
		case "contains":
			if len(op.Vs) > 16 && n > 128 {
				label("contains:17+args-on-129+elements")
			}
			for li, l := range ls {
				want := true
				for _, v := range op.Vs {
					if !slices.Contains(models[li], v) {
						want = false
					}
				}
				if got := l.Contains(op.Vs...); got != want {
					return info, fmt.Errorf("%s step %d: Contains(%v)=%v, want %v in %v", names[li], i, op.Vs, got, want, models[li])
				}
			}
			continue
		case "insert":
			if len(op.Vs) == 0 {
				label("variadic:zero-values")
			}
			switch {
			case op.I < 0 || op.I > n:
				label("index:out-of-range-noop")
			case op.I == 0:
				label("insert:head")
			case op.I == n:
				label("insert:at-size")
			case n-op.I < op.I:
				label("walk:from-tail")
			}
			if op.I >= 0 && op.I <= n && len(op.Vs) > 0 && n >= 2 {
				effective = true
			}
		case "remove":
			switch {
			case op.I < 0 || op.I >= n:
				label("index:out-of-range-noop")
			case op.I == 0:
				label("remove:head")
			case op.I == n-1:
				label("remove:tail")
			case n-op.I < op.I:
				label("walk:from-tail")
			}
			if op.I >= 0 && op.I < n && n >= 2 {
				effective = true
			}
		case "set":
			switch {
			case op.I == n:
				label("set:appends-at-size")
			case op.I < 0 || op.I > n:
				label("index:out-of-range-noop")
			case n-op.I < op.I:
				label("walk:from-tail")
			}
			if op.I >= 0 && op.I < n && n >= 2 {
				effective = true
			}
		case "swap":
			if op.I >= 0 && op.I < n && op.J >= 0 && op.J < n && op.I != op.J {
				effective = true
			} else if op.I < 0 || op.I >= n || op.J < 0 || op.J >= n {
				label("index:out-of-range-noop")
			}
		case "add", "append", "prepend":
			if len(op.Vs) == 0 {
				label("variadic:zero-values")
			}
			if len(op.Vs) >= 16 {
				label("bulk-add")
			}
		case "sort":
			label("sort:" + op.C)
		case "load":
			label("load")
		}
		for li, l := range ls {
			switch op.O {
			case "add":
				l.Add(op.Vs...)
			case "append":
				l.Append(op.Vs...)
			case "prepend":
				l.Prepend(op.Vs...)
			case "insert":
				l.Insert(op.I, op.Vs...)
			case "remove":
				l.Remove(op.I)
			case "set":
				l.Set(op.I, op.V)
			case "swap":
				l.Swap(op.I, op.J)
			case "sort":
				l.Sort(dom.Cmp(op.C))
			case "clear":
				l.Clear()
			case "load":
				// a state reached through FromJSON is a reachable state too: the array
				// replaces the content and the list keeps behaving as the sequence
				doc, _ := json.Marshal(append([]int{}, op.Vs...))
				target := via.In(l)
				if a, ok := l.(arrayAsLinked); ok {
					target = a.List // the wrapper is a value; encoding/json needs the pointer
				}
				if err := via.Auto(target, doc); err != nil {
					return info, fmt.Errorf("%s step %d: %s(%s) failed: %v", names[li], i, via.AutoName(doc), doc, err)
				}
			default:
				return info, fmt.Errorf("bad op %q", op.O)
			}
			if op.O == "sort" && dom.Coarse(op.C) {
				// many valid answers: validity predicate, then the model adopts the result
				got := l.Values()
				before := models[li]
				a, b := slices.Clone(got), slices.Clone(before)
				slices.Sort(a)
				slices.Sort(b)
				if !slices.Equal(a, b) {
					return info, fmt.Errorf("%s step %d: Sort(%s) changed the multiset: %v -> %v", names[li], i, op.C, before, got)
				}
				cmp := dom.Cmp(op.C)
				for j := 1; j < len(got); j++ {
					if cmp(got[j-1], got[j]) > 0 {
						return info, fmt.Errorf("%s step %d: Sort(%s) left %v, not non-decreasing at %d", names[li], i, op.C, got, j)
					}
				}
				models[li] = got
			} else {
				models[li] = applyModel(models[li], op)
			}
		}
		if err := observe(i, fmt.Sprintf("%s(i=%d,j=%d,v=%d,vs=%v,c=%s)", op.O, op.I, op.J, op.V, op.Vs, op.C)); err != nil {
			return info, err
		}
	}
	info.NonTrivial = effective
	return info, nil
}

func vals(t *rapid.T, label string, minN, maxN int) []int {
	return rapid.SliceOfN(rapid.IntRange(0, domainHi), minN, maxN).Draw(t, label)
}

func gen(t *rapid.T) Case {
	var c Case
	c.Init = vals(t, "init", 0, 6)
	m := slices.Clone(c.Init)
	n := rapid.IntRange(0, 40).Draw(t, "n")
	for i := 0; i < n; i++ {
		var op Op
		switch dom.Weighted(t, "op", 1, 10, 5, 6, 16, 16, 10, 8, 4, 1, 6, 2, 3, 2) {
		case 0:
			continue
		case 1:
			op = Op{O: "add", Vs: vals(t, "vs", 0, 4)}
		case 2:
			op = Op{O: "append", Vs: vals(t, "vs", 0, 4)}
		case 3:
			op = Op{O: "prepend", Vs: vals(t, "vs", 0, 4)}
		case 4:
			op = Op{O: "insert", I: dom.WildIndex(rapid.IntRange(0, 1<<16).Draw(t, "raw"), len(m)), Vs: vals(t, "vs", 0, 4)}
		case 5:
			op = Op{O: "remove", I: dom.WildIndex(rapid.IntRange(0, 1<<16).Draw(t, "raw"), len(m))}
		case 6:
			op = Op{O: "set", I: dom.WildIndex(rapid.IntRange(0, 1<<16).Draw(t, "raw"), len(m)), V: rapid.IntRange(0, domainHi).Draw(t, "v")}
		case 7:
			op = Op{O: "swap", I: dom.WildIndex(rapid.IntRange(0, 1<<16).Draw(t, "raw"), len(m)), J: dom.WildIndex(rapid.IntRange(0, 1<<16).Draw(t, "raw2"), len(m))}
		case 8:
			op = Op{O: "sort", C: []string{dom.Nat, dom.Rev, dom.Half, dom.Scr}[rapid.IntRange(0, 3).Draw(t, "cmp")]}
		case 9:
			op = Op{O: "clear"}
		case 10:
			op = Op{O: "contains", Vs: vals(t, "probe", 0, 3)}
			switch rapid.IntRange(0, 5).Draw(t, "many-probes") {
			case 0: // far more arguments than a handful, with repeats
				op.Vs = vals(t, "probe-many", 9, 30)
			case 1: // the whole current contents (every argument present, duplicates as they come)
				op.Vs = slices.Clone(m)
			}
		case 13:
			op = Op{O: "load", Vs: vals(t, "doc", 0, 12)}
		case 11: // bulk add: crosses the array list's growth thresholds
			op = Op{O: "add", Vs: vals(t, "bulk", 8, 40)}
		case 12: // run of removals at one index: crosses the shrink threshold
			idx := dom.WildIndex(rapid.IntRange(0, 1<<16).Draw(t, "raw"), len(m))
			k := rapid.IntRange(2, 30).Draw(t, "k")
			for j := 0; j < k; j++ {
				rop := Op{O: "remove", I: idx}
				c.Ops = append(c.Ops, rop)
				m = applyModel(m, rop)
			}
			continue
		}
		c.Ops = append(c.Ops, op)
		m = applyModel(m, op)
	}
	return c
}

// genLong: lists of hundreds of elements — capacity thresholds 64/128/256/512 of
// the array list (grow x2, shrink at 25%), Insert/Add of up to 200 values at
// once, removal runs of up to 300, far-apart Swap positions, values incl. negatives.
func genLong(t *rapid.T) Case {
	var c Case
	big := func(label string, lo, hi int) []int {
		return rapid.SliceOfN(rapid.IntRange(-3, 12), lo, hi).Draw(t, label)
	}
	c.Init = big("init", 0, pbt.Size(140))
	m := slices.Clone(c.Init)
	for chunk := 0; chunk < 3; chunk++ {
		n := rapid.IntRange(0, 10).Draw(t, "n")
		for i := 0; i < n; i++ {
			raw := rapid.IntRange(0, 1<<20).Draw(t, "raw")
			var op Op
			switch dom.Weighted(t, "op", 1, 6, 4, 8, 4, 4, 2, 3, 1, 8, 6, 1) {
			case 0:
				continue
			case 1:
				op = Op{O: "add", Vs: big("vs", 30, pbt.Size(200))}
				if rapid.IntRange(0, 11).Draw(t, "ladder") == 7 {
					// one call past the sizes at which an implementation may switch strategy
					// (512, 1024, 2048, 4096), then operations at the junction with the old content
					k := []int{513, 1025, 2049, 4097}[rapid.IntRange(0, 3).Draw(t, "ladder-size")]
					op.Vs = make([]int, k)
					for j := range op.Vs {
						op.Vs[j] = (raw + j*7) % 13
					}
					junction := len(m)
					c.Ops = append(c.Ops, op)
					m = applyModel(m, op)
					for _, o2 := range []Op{{O: "remove", I: junction}, {O: "set", I: junction - 1, V: 5}, {O: "remove", I: junction - 1}, {O: "insert", I: junction, Vs: []int{1, 2}}} {
						if rapid.Bool().Draw(t, "junction-op") {
							c.Ops = append(c.Ops, o2)
							m = applyModel(m, o2)
						}
					}
					continue
				}
			case 2:
				op = Op{O: "prepend", Vs: big("vs", 10, 90)}
			case 3:
				op = Op{O: "insert", I: dom.WildIndex(raw, len(m)), Vs: big("vs", 1, 130)}
			case 4:
				op = Op{O: "set", I: dom.WildIndex(raw, len(m)), V: rapid.IntRange(-3, 12).Draw(t, "v")}
			case 5:
				op = Op{O: "swap", I: dom.WildIndex(raw, len(m)), J: dom.WildIndex(rapid.IntRange(0, 1<<20).Draw(t, "raw2"), len(m))}
			case 6:
				op = Op{O: "sort", C: []string{dom.Nat, dom.Rev, dom.Half, dom.Mag}[rapid.IntRange(0, 3).Draw(t, "cmp")]}
			case 7:
				op = Op{O: "contains", Vs: big("probe", 0, 4)}
				// long argument lists against long lists: every argument present (with
				// repeats), the same plus one absent value, the whole contents
				if len(m) > 0 {
					switch rapid.IntRange(0, 3).Draw(t, "probe-shape") {
					case 0, 1:
						k := rapid.IntRange(9, 70).Draw(t, "probe-n")
						op.Vs = nil
						for j := 0; j < k; j++ {
							op.Vs = append(op.Vs, m[(raw+j*rapid.IntRange(1, 97).Draw(t, "probe-stride"))%len(m)])
						}
						if rapid.IntRange(0, 3).Draw(t, "absent") == 0 {
							op.Vs[raw%len(op.Vs)] = 99
						}
					case 2:
						op.Vs = slices.Clone(m)
					}
				}
			case 8:
				op = Op{O: "clear"}
			case 9: // a run of removals at one (relative) position: front, back or middle
				k := rapid.IntRange(5, pbt.Size(300)).Draw(t, "k")
				where := rapid.IntRange(0, 2).Draw(t, "where")
				for j := 0; j < k && len(m) > 0; j++ {
					idx := []int{0, len(m) - 1, len(m) / 2}[where]
					rop := Op{O: "remove", I: idx}
					c.Ops = append(c.Ops, rop)
					m = applyModel(m, rop)
				}
				continue
			case 11:
				op = Op{O: "load", Vs: big("doc", 0, 150)}
			case 10:
				op = Op{O: "remove", I: dom.WildIndex(raw, len(m))}
			}
			c.Ops = append(c.Ops, op)
			m = applyModel(m, op)
		}
	}
	return c
}

func TestGenerated(t *testing.T) {
	pbt.Run(t, pbt.Target[Case]{Name: "three-lists", Checks: 40000, Gen: gen, Check: check})
	pbt.Run(t, pbt.Target[Case]{Name: "three-lists/long", Checks: 600, Gen: genLong, Check: check})
}

// TestExhaustive enumerates, for every initial length 0..4, every single
// index-taking operation at every index -1..n+1 with 0, 1 and 2 values,
// followed by every second such operation (all pairs of index operations).
func TestExhaustive(t *testing.T) {
	maxLen := 4
	if pbt.Thorough() {
		maxLen = 6
	}
	opsFor := func(n int) []Op {
		var out []Op
		for i := -1; i <= n+1; i++ {
			for k := 0; k <= 2; k++ {
				out = append(out, Op{O: "insert", I: i, Vs: []int{7, 6}[:k]})
			}
			out = append(out, Op{O: "remove", I: i}, Op{O: "set", I: i, V: 5})
			for j := -1; j <= n; j++ {
				out = append(out, Op{O: "swap", I: i, J: j})
			}
		}
		out = append(out, Op{O: "prepend", Vs: []int{7, 6}}, Op{O: "prepend"}, Op{O: "append", Vs: []int{7}}, Op{O: "add"}, Op{O: "clear"}, Op{O: "sort", C: dom.Rev})
		return out
	}
	note := fmt.Sprintf("initial lengths 0..%d x every pair of index operations (Insert with 0/1/2 values, Remove, Set, Swap at every index -1..n+1, Prepend/Append/Add/Clear/Sort)", maxLen)
	pbt.Enumerate(t, pbt.Target[Case]{Name: "exhaustive-index-pairs", Check: check}, note, func(yield func(Case) bool) {
		idx := 0
		for n := 0; n <= maxLen; n++ {
			init := make([]int, n)
			for i := range init {
				init[i] = i + 1
			}
			for _, a := range opsFor(n) {
				n2 := len(applyModel(slices.Clone(init), a))
				for _, b := range opsFor(n2) {
					idx++
					if !pbt.Mine(idx) {
						continue
					}
					if !yield(Case{Init: init, Ops: []Op{a, b}}) {
						return
					}
				}
			}
		}
	})
}
