// C15 — Size, Empty, Values, Keys and Clear agree on every container.
package c15

import (
	"encoding/json"
	"fmt"
	"reflect"
	"strings"
	"testing"

	"pgregory.net/rapid"

	"verif/harness/internal/fp"
	"verif/harness/internal/pbt"
	"verif/harness/internal/refl"
)

func TestMain(m *testing.M) { pbt.Main(m, "C15") }

type Case struct {
	Cfg    refl.Cfg    `json:"cfg"`
	Before []refl.Step `json:"before"` // history before Clear()
	After  []refl.Step `json:"after"`  // continuation, applied in lock-step to the cleared and to a fresh container
}

// mutators are the methods that may change a container; everything else is an
// observer and must leave the fingerprint alone.
var mutators = map[string]bool{
	"Add": true, "Append": true, "Prepend": true, "Insert": true, "Remove": true, "Set": true, "Swap": true, "Sort": true, "Clear": true,
	"Put": true, "Push": true, "Pop": true, "Enqueue": true, "Dequeue": true, "FromJSON": true, "UnmarshalJSON": true,
}

// quadratic reports kinds whose Values()/String()/iteration cost O(n^2) (the
// heap rebuilds a level per element); for those, large states are observed
// fully only every 4th step.
func quadratic(r *refl.Runner) bool {
	return (r.Cfg.Kind == "binaryheap" || r.Cfg.Kind == "priorityqueue") && r.Size() > 32
}

var tick int

func invariants(r *refl.Runner, where string) error {
	if tick++; quadratic(r) && tick%4 != 0 {
		if r.Size() < 0 {
			return fmt.Errorf("%s %s: Size() negative", r.Cfg.Kind, where)
		}
		return nil
	}
	f0 := fp.Of(r.Obj)
	obs := r.Observers()
	if g := fp.Of(r.Obj); g != f0 {
		return fmt.Errorf("%s %s: the argument-free observers (Size, Empty, Values, Keys, String, ToJSON, Peek, ...) altered the container: %s", r.Cfg.Kind, where, fp.Diff(f0, g))
	}
	size := obs["Size"].([]any)[0].(int64)
	empty := obs["Empty"].([]any)[0].(bool)
	kind := r.Cfg.Kind
	if size < 0 {
		return fmt.Errorf("%s %s: Size()=%d is negative", kind, where, size)
	}
	if empty != (size == 0) {
		return fmt.Errorf("%s %s: Empty()=%v but Size()=%d", kind, where, empty, size)
	}
	v := reflect.ValueOf(r.Obj)
	if kind == "hashbidimap" && r.Cfg.Elem == "float" {
		// NaN keys/values are not equal to themselves: Go's maps can neither find nor
		// delete them, so the forward and the inverse map of a HashBidiMap legitimately
		// drift apart once one was put.  Outside the domain of the Values/Keys clause;
		// the Clear clause below is still checked (Size()==0 => everything is compared).
		return nil
	}
	if n := v.MethodByName("Values").Call(nil)[0].Len(); int64(n) != size {
		return fmt.Errorf("%s %s: len(Values())=%d but Size()=%d", kind, where, n, size)
	}
	if km := v.MethodByName("Keys"); km.IsValid() {
		if n := km.Call(nil)[0].Len(); int64(n) != size {
			return fmt.Errorf("%s %s: len(Keys())=%d but Size()=%d", kind, where, n, size)
		}
	}
	if s := obs["String"].([]any)[0].(string); !strings.HasPrefix(s, refl.Name[kind]) {
		return fmt.Errorf("%s %s: String()=%q does not begin with %q", kind, where, s, refl.Name[kind])
	}
	if fm := v.MethodByName("Full"); fm.IsValid() {
		if full := fm.Call(nil)[0].Bool(); full != (size == int64(r.Cfg.Cap)) {
			return fmt.Errorf("%s %s: Full()=%v with Size()=%d and capacity %d", kind, where, full, size, r.Cfg.Cap)
		}
	}
	return nil
}

// ambiguousLoad reports whether the step loads a JSON document whose result
// legitimately depends on Go's map iteration order: for the bidirectional maps,
// a document in which two keys carry one value (either may survive).
func ambiguousLoad(kind string, s refl.Step) bool {
	if (s.M != "FromJSON" && s.M != "UnmarshalJSON") || (kind != "hashbidimap" && kind != "treebidimap") {
		return false
	}
	var m map[int]int
	if json.Unmarshal(s.B, &m) != nil {
		return false
	}
	seen := map[int]bool{}
	for _, v := range m {
		if seen[v] {
			return true
		}
		seen[v] = true
	}
	return false
}

// comparable drops the observers whose value legitimately depends on the
// insertion order chosen by Go's map iteration inside FromJSON (B-tree height).
func comparable(o map[string]any) map[string]any {
	delete(o, "Height")
	return o
}

func check(c Case) (pbt.Info, error) {
	var info pbt.Info
	kind := c.Cfg.Kind
	a := refl.NewRunner(c.Cfg)
	if err := invariants(a, "fresh"); err != nil {
		return info, err
	}
	maxSize := 0
	for i, s := range c.Before {
		var f0 string
		observer := !mutators[s.M]
		if observer {
			f0 = fp.Of(a.Obj)
		}
		res := a.Do(s)
		if !res.Called {
			continue
		}
		if observer {
			if g := fp.Of(a.Obj); g != f0 {
				return info, fmt.Errorf("%s: observer %s (step %d) altered the container: %s", kind, s.M, i, fp.Diff(f0, g))
			}
		}
		if err := invariants(a, fmt.Sprintf("after step %d %s", i, s.M)); err != nil {
			return info, err
		}
		maxSize = max(maxSize, a.Size())
	}
	sizeAtClear := a.Size()
	// the invariant observers themselves (Size, Empty, Values, Keys, String, ToJSON, ...) are pure
	f0 := fp.Of(a.Obj)
	_ = a.Observers()
	if g := fp.Of(a.Obj); g != f0 {
		return info, fmt.Errorf("%s: the argument-free observers altered the container: %s", kind, fp.Diff(f0, g))
	}
	a.Do(refl.Step{M: "Clear"})
	if err := invariants(a, "after Clear"); err != nil {
		return info, err
	}
	if a.Size() != 0 {
		return info, fmt.Errorf("%s: Size()=%d after Clear()", kind, a.Size())
	}
	// cleared vs fresh, in lock-step
	b := refl.NewRunner(c.Cfg)
	if oa, ob := comparable(a.Observers()), comparable(b.Observers()); !reflect.DeepEqual(oa, ob) {
		return info, fmt.Errorf("%s: cleared container observes %v, a fresh one %v", kind, oa, ob)
	}
	effective := 0
	for i, s := range c.After {
		if ambiguousLoad(kind, s) {
			continue
		}
		fa := fp.Of(a.Obj)
		ra, rb := a.Do(s), b.Do(s)
		if ra.Called != rb.Called {
			return info, fmt.Errorf("%s: continuation step %d %s could be applied to only one of cleared/fresh (%q / %q)", kind, i, s.M, ra.Why, rb.Why)
		}
		if !ra.Called {
			continue
		}
		if mutators[s.M] && fp.Of(a.Obj) != fa {
			effective++
		}
		if s.M == "Height" {
			// B-tree height after FromJSON depends on the insertion order chosen by Go's map iteration
			ra.Vals, rb.Vals = nil, nil
		}
		if !reflect.DeepEqual(ra.Vals, rb.Vals) || !reflect.DeepEqual(ra.ItLog, rb.ItLog) {
			return info, fmt.Errorf("%s: after Clear, continuation step %d %s returned %v %v on the cleared container but %v %v on a fresh one", kind, i, s.M, ra.Vals, ra.ItLog, rb.Vals, rb.ItLog)
		}
		if quadratic(a) && i%4 != 0 && i != len(c.After)-1 {
			continue
		}
		if oa, ob := comparable(a.Observers()), comparable(b.Observers()); !reflect.DeepEqual(oa, ob) {
			return info, fmt.Errorf("%s: after Clear and continuation step %d %s the cleared container observes %v, a fresh one %v", kind, i, s.M, oa, ob)
		}
		if err := invariants(a, fmt.Sprintf("after Clear and continuation step %d %s", i, s.M)); err != nil {
			return info, err
		}
	}
	info.NonTrivial = sizeAtClear > 0 && effective >= 3
	if sizeAtClear > 0 {
		info.Label("clear-on-non-empty")
	}
	if maxSize >= 8 {
		info.Label("size>=8")
	}
	return info, nil
}

func gen(kind string) func(t *rapid.T) Case { return genWith(kind, false) }

func genWith(kind string, float bool) func(t *rapid.T) Case {
	if float {
		return genElem(kind, "float")
	}
	return genElem(kind, "")
}

func genElem(kind, elem string) func(t *rapid.T) Case {
	return func(t *rapid.T) Case {
		c := Case{Cfg: refl.GenCfg(t, kind)}
		switch elem {
		case "float":
			c.Cfg = refl.GenCfgFloat(t, kind)
		case "any", "uint8":
			c.Cfg = refl.GenCfgElem(t, kind, elem)
		}
		methods := refl.Methods(c.Cfg)
		// mutators are listed twice more so that histories build real content
		var weighted []string
		for _, m := range methods {
			weighted = append(weighted, m)
			if mutators[m] && m != "Clear" {
				weighted = append(weighted, m, m)
			}
		}
		// half of the histories start with a phase of pure building calls
		var build []string
		for _, m := range methods {
			switch m {
			case "Add", "Append", "Prepend", "Insert", "Put", "Push", "Enqueue":
				build = append(build, m, m)
			case "Remove", "Pop", "Dequeue":
				build = append(build, m)
			}
		}
		if len(build) > 0 && rapid.Bool().Draw(t, "build-phase") {
			chunks := 1
			if rapid.IntRange(0, 7).Draw(t, "big-build") == 0 {
				chunks = 8 // dozens to hundreds of elements before Clear
			}
			c.Before = refl.GenStepsFor(t, c.Cfg.Kind, build, chunks, 14)
		}
		c.Before = append(c.Before, refl.GenStepsFor(t, c.Cfg.Kind, weighted, 2, 10)...)
		c.After = refl.GenStepsFor(t, c.Cfg.Kind, weighted, 2, 10)
		return c
	}
}

func TestGenerated(t *testing.T) {
	refl.Ladder = []int{513, 1025, 2049} // rare huge variadic calls and repeat counts
	refl.LargeCaps = []int{255, 300, 1025}
	refl.LadderRepeatCap = 1100
	refl.LadderOdds = 2 // every step of this check costs a deep fingerprint and all observers
	if !pbt.Thorough() {
		refl.LadderOdds = 4 // the quick tier runs on every change: half as many of the thousand-element cases
	}
	for _, kind := range refl.Kinds {
		checks := 600
		if kind == "doublylinkedlist" || kind == "singlylinkedlist" {
			checks = 380 // every observer and the fingerprint walk the chain: these two cost three to five times the others
		}
		pbt.Run(t, pbt.Target[Case]{Name: kind, Checks: checks, Gen: gen(kind), Check: check})
	}
	// float64 elements (NaN, the two zeros, infinities) with the default constructors:
	// elements that are not equal to themselves must not survive Clear either
	for _, kind := range refl.Kinds {
		pbt.Run(t, pbt.Target[Case]{Name: kind + "/float64", Checks: 150, Gen: genWith(kind, true), Check: check})
	}
	// T = any (nil, pointers, errors, mixed dynamic types).  (The uint8 family of C17 is
	// not used here: encoding/json writes a slice of a uint8-kinded type as a base64
	// string, so ToJSON of such a list legitimately differs between a nil and an empty
	// backing slice.)
	for _, elem := range []string{"any"} {
		for _, kind := range refl.Kinds {
			pbt.Run(t, pbt.Target[Case]{Name: kind + "/" + elem, Checks: 60, Gen: genElem(kind, elem), Check: check})
		}
	}
}
