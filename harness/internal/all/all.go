// Package all gives a uniform handle over all 21 containers, generic in the
// element type (keys and values share the type E so that values can equal keys).
package all

import (
	"cmp"
	"slices"

	"github.com/emirpasic/gods/v2/containers"
	"github.com/emirpasic/gods/v2/lists/arraylist"
	"github.com/emirpasic/gods/v2/lists/doublylinkedlist"
	"github.com/emirpasic/gods/v2/lists/singlylinkedlist"
	"github.com/emirpasic/gods/v2/maps/hashbidimap"
	"github.com/emirpasic/gods/v2/maps/hashmap"
	"github.com/emirpasic/gods/v2/maps/linkedhashmap"
	"github.com/emirpasic/gods/v2/maps/treebidimap"
	"github.com/emirpasic/gods/v2/maps/treemap"
	"github.com/emirpasic/gods/v2/queues/arrayqueue"
	"github.com/emirpasic/gods/v2/queues/circularbuffer"
	"github.com/emirpasic/gods/v2/queues/linkedlistqueue"
	"github.com/emirpasic/gods/v2/queues/priorityqueue"
	"github.com/emirpasic/gods/v2/sets/hashset"
	"github.com/emirpasic/gods/v2/sets/linkedhashset"
	"github.com/emirpasic/gods/v2/sets/treeset"
	"github.com/emirpasic/gods/v2/stacks/arraystack"
	"github.com/emirpasic/gods/v2/stacks/linkedliststack"
	"github.com/emirpasic/gods/v2/trees/avltree"
	"github.com/emirpasic/gods/v2/trees/binaryheap"
	"github.com/emirpasic/gods/v2/trees/btree"
	"github.com/emirpasic/gods/v2/trees/redblacktree"
)

// The 21 kinds.
var Kinds = []string{
	"arraylist", "singlylinkedlist", "doublylinkedlist",
	"hashset", "treeset", "linkedhashset",
	"arraystack", "linkedliststack",
	"arrayqueue", "linkedlistqueue", "circularbuffer", "priorityqueue",
	"hashmap", "treemap", "linkedhashmap", "hashbidimap", "treebidimap",
	"redblacktree", "avltree", "btree", "binaryheap",
}

// Family groups kinds by discipline.
func Family(kind string) string {
	switch kind {
	case "arraylist", "singlylinkedlist", "doublylinkedlist":
		return "list"
	case "hashset", "treeset", "linkedhashset":
		return "set"
	case "arraystack", "linkedliststack":
		return "stack"
	case "arrayqueue", "linkedlistqueue", "circularbuffer":
		return "queue"
	case "priorityqueue", "binaryheap":
		return "heap"
	case "hashmap", "treemap", "linkedhashmap":
		return "map"
	case "hashbidimap", "treebidimap":
		return "bidi"
	case "redblacktree", "avltree", "btree":
		return "tree"
	}
	panic("all: unknown kind " + kind)
}

// KeyValue reports whether the kind is a key-value container (JSON object).
func KeyValue(kind string) bool {
	switch Family(kind) {
	case "map", "bidi", "tree":
		return true
	}
	return false
}

// Unordered reports whether the kind enumerates in Go map order.
func Unordered(kind string) bool {
	return kind == "hashset" || kind == "hashmap" || kind == "hashbidimap"
}

// UsesComparator reports whether the kind is configured with a comparator.
func UsesComparator(kind string) bool {
	switch kind {
	case "treeset", "priorityqueue", "treemap", "treebidimap", "redblacktree", "avltree", "btree", "binaryheap":
		return true
	}
	return false
}

// Cfg is the configuration of a container.
type Cfg struct {
	Kind  string `json:"kind"`
	Rev   bool   `json:"rev,omitempty"`   // reversed comparator (comparator kinds)
	Cap   int    `json:"cap,omitempty"`   // ring capacity
	Order int    `json:"order,omitempty"` // B-tree order
}

// H is the uniform handle.
type H[E cmp.Ordered] struct {
	Cfg Cfg
	Obj any // the container pointer

	Add      func(x E)        // list Add, set Add, Push, Enqueue, Put(x, x-derived value given by PutKV)
	AddN     func(xs ...E)    // variadic where the API has one, else repeated Add
	PutKV    func(k, v E)     // key-value kinds only
	RemKey   func(k E)        // set Remove / map Remove (nil elsewhere)
	RemIndex func(i int)      // list Remove (nil elsewhere)
	Take     func() (E, bool) // Pop / Dequeue (nil elsewhere)
	Peek     func() (E, bool) // stacks, queues, heaps
	Get      func(k E) (E, bool)
	Clear    func()

	Size   func() int
	Empty  func() bool
	Values func() []E
	Keys   func() []E // key-value kinds only
	String func() string
	Full   func() bool // ring only

	ToJSON   func() ([]byte, error)
	FromJSON func([]byte) error
	// Marshaler / Unmarshaler views (for encoding/json)
	AsJSON any

	// Iterate walks a fresh iterator forward and returns (index-or-key, value)
	// pairs; nil for the three hash kinds.
	Iterate func() ([]E, []E)

	// Variadic lists the variadic entry points besides the constructor:
	// name -> call(index, values...) (index is used by Insert only).
	Variadic map[string]func(i int, vs ...E)

	// Container view (for containers.GetSortedValues*)
	Container containers.Container[E]
	Less      func(a, b E) int // the configured comparator (natural when none)
}

func natural[E cmp.Ordered](a, b E) int  { return cmp.Compare(a, b) }
func reversed[E cmp.Ordered](a, b E) int { return cmp.Compare(b, a) }

// comparator values are created once per element type so that two containers
// of one configuration share one function value (TreeSet algebra compares code
// pointers; generic instantiations of one function share their pointer).
func Comparator[E cmp.Ordered](rev bool) func(a, b E) int {
	if rev {
		return reversed[E]
	}
	return natural[E]
}

// New builds a fresh container.  init is passed to the constructor of the
// kinds whose constructor is variadic (the three lists and the three sets) and
// ignored elsewhere.
func New[E cmp.Ordered](cfg Cfg, init ...E) *H[E] {
	h := &H[E]{Cfg: cfg}
	less := Comparator[E](cfg.Rev && UsesComparator(cfg.Kind))
	h.Less = less
	addEach := func(add func(E)) func(...E) {
		return func(xs ...E) {
			for _, x := range xs {
				add(x)
			}
		}
	}
	switch cfg.Kind {
	case "arraylist":
		c := arraylist.New[E](init...)
		h.Obj, h.Container, h.AsJSON = c, c, c
		h.Add, h.AddN, h.RemIndex, h.Clear = func(x E) { c.Add(x) }, c.Add, c.Remove, c.Clear
		h.Variadic = map[string]func(int, ...E){"Add": func(_ int, vs ...E) { c.Add(vs...) }, "Insert": func(i int, vs ...E) { c.Insert(i, vs...) }}
		h.Size, h.Empty, h.Values, h.String = c.Size, c.Empty, c.Values, c.String
		h.ToJSON, h.FromJSON = c.ToJSON, c.FromJSON
		h.Iterate = func() (ks, vs []E) {
			for it := c.Iterator(); it.Next(); {
				vs = append(vs, it.Value())
			}
			return nil, vs
		}
	case "singlylinkedlist":
		c := singlylinkedlist.New[E](init...)
		h.Obj, h.Container, h.AsJSON = c, c, c
		h.Add, h.AddN, h.RemIndex, h.Clear = func(x E) { c.Add(x) }, c.Add, c.Remove, c.Clear
		h.Variadic = map[string]func(int, ...E){"Add": func(_ int, vs ...E) { c.Add(vs...) }, "Append": func(_ int, vs ...E) { c.Append(vs...) }, "Prepend": func(_ int, vs ...E) { c.Prepend(vs...) }, "Insert": func(i int, vs ...E) { c.Insert(i, vs...) }}
		h.Size, h.Empty, h.Values, h.String = c.Size, c.Empty, c.Values, c.String
		h.ToJSON, h.FromJSON = c.ToJSON, c.FromJSON
		h.Iterate = func() (ks, vs []E) {
			for it := c.Iterator(); it.Next(); {
				vs = append(vs, it.Value())
			}
			return nil, vs
		}
	case "doublylinkedlist":
		c := doublylinkedlist.New[E](init...)
		h.Obj, h.Container, h.AsJSON = c, c, c
		h.Add, h.AddN, h.RemIndex, h.Clear = func(x E) { c.Add(x) }, c.Add, c.Remove, c.Clear
		h.Variadic = map[string]func(int, ...E){"Add": func(_ int, vs ...E) { c.Add(vs...) }, "Append": func(_ int, vs ...E) { c.Append(vs...) }, "Prepend": func(_ int, vs ...E) { c.Prepend(vs...) }, "Insert": func(i int, vs ...E) { c.Insert(i, vs...) }}
		h.Size, h.Empty, h.Values, h.String = c.Size, c.Empty, c.Values, c.String
		h.ToJSON, h.FromJSON = c.ToJSON, c.FromJSON
		h.Iterate = func() (ks, vs []E) {
			it := c.Iterator()
			for it.Next() {
				vs = append(vs, it.Value())
			}
			return nil, vs
		}
	case "hashset":
		c := hashset.New[E](init...)
		h.Obj, h.Container, h.AsJSON = c, c, c
		h.Variadic = map[string]func(int, ...E){"Add": func(_ int, vs ...E) { c.Add(vs...) }}
		h.Add, h.AddN, h.RemKey, h.Clear = func(x E) { c.Add(x) }, c.Add, func(k E) { c.Remove(k) }, c.Clear
		h.Get = func(k E) (E, bool) { return k, c.Contains(k) }
		h.Size, h.Empty, h.Values, h.String = c.Size, c.Empty, c.Values, c.String
		h.ToJSON, h.FromJSON = c.ToJSON, c.FromJSON
	case "treeset":
		c := treeset.NewWith[E](less, init...)
		h.Obj, h.Container, h.AsJSON = c, c, c
		h.Variadic = map[string]func(int, ...E){"Add": func(_ int, vs ...E) { c.Add(vs...) }}
		h.Add, h.AddN, h.RemKey, h.Clear = func(x E) { c.Add(x) }, c.Add, func(k E) { c.Remove(k) }, c.Clear
		h.Get = func(k E) (E, bool) { return k, c.Contains(k) }
		h.Size, h.Empty, h.Values, h.String = c.Size, c.Empty, c.Values, c.String
		h.ToJSON, h.FromJSON = c.ToJSON, c.FromJSON
		h.Iterate = func() (ks, vs []E) {
			it := c.Iterator()
			for it.Next() {
				vs = append(vs, it.Value())
			}
			return nil, vs
		}
	case "linkedhashset":
		c := linkedhashset.New[E](init...)
		h.Obj, h.Container, h.AsJSON = c, c, c
		h.Variadic = map[string]func(int, ...E){"Add": func(_ int, vs ...E) { c.Add(vs...) }}
		h.Add, h.AddN, h.RemKey, h.Clear = func(x E) { c.Add(x) }, c.Add, func(k E) { c.Remove(k) }, c.Clear
		h.Get = func(k E) (E, bool) { return k, c.Contains(k) }
		h.Size, h.Empty, h.Values, h.String = c.Size, c.Empty, c.Values, c.String
		h.ToJSON, h.FromJSON = c.ToJSON, c.FromJSON
		h.Iterate = func() (ks, vs []E) {
			it := c.Iterator()
			for it.Next() {
				vs = append(vs, it.Value())
			}
			return nil, vs
		}
	case "arraystack":
		c := arraystack.New[E]()
		h.Obj, h.Container, h.AsJSON = c, c, c
		h.Add, h.AddN, h.Take, h.Peek, h.Clear = c.Push, addEach(c.Push), c.Pop, c.Peek, c.Clear
		h.Size, h.Empty, h.Values, h.String = c.Size, c.Empty, c.Values, c.String
		h.ToJSON, h.FromJSON = c.ToJSON, c.FromJSON
		h.Iterate = func() (ks, vs []E) {
			for it := c.Iterator(); it.Next(); {
				vs = append(vs, it.Value())
			}
			return nil, vs
		}
	case "linkedliststack":
		c := linkedliststack.New[E]()
		h.Obj, h.Container, h.AsJSON = c, c, c
		h.Add, h.AddN, h.Take, h.Peek, h.Clear = c.Push, addEach(c.Push), c.Pop, c.Peek, c.Clear
		h.Size, h.Empty, h.Values, h.String = c.Size, c.Empty, c.Values, c.String
		h.ToJSON, h.FromJSON = c.ToJSON, c.FromJSON
		h.Iterate = func() (ks, vs []E) {
			for it := c.Iterator(); it.Next(); {
				vs = append(vs, it.Value())
			}
			return nil, vs
		}
	case "arrayqueue":
		c := arrayqueue.New[E]()
		h.Obj, h.Container, h.AsJSON = c, c, c
		h.Add, h.AddN, h.Take, h.Peek, h.Clear = c.Enqueue, addEach(c.Enqueue), c.Dequeue, c.Peek, c.Clear
		h.Size, h.Empty, h.Values, h.String = c.Size, c.Empty, c.Values, c.String
		h.ToJSON, h.FromJSON = c.ToJSON, c.FromJSON
		h.Iterate = func() (ks, vs []E) {
			for it := c.Iterator(); it.Next(); {
				vs = append(vs, it.Value())
			}
			return nil, vs
		}
	case "linkedlistqueue":
		c := linkedlistqueue.New[E]()
		h.Obj, h.Container, h.AsJSON = c, c, c
		h.Add, h.AddN, h.Take, h.Peek, h.Clear = c.Enqueue, addEach(c.Enqueue), c.Dequeue, c.Peek, c.Clear
		h.Size, h.Empty, h.Values, h.String = c.Size, c.Empty, c.Values, c.String
		h.ToJSON, h.FromJSON = c.ToJSON, c.FromJSON
		h.Iterate = func() (ks, vs []E) {
			for it := c.Iterator(); it.Next(); {
				vs = append(vs, it.Value())
			}
			return nil, vs
		}
	case "circularbuffer":
		c := circularbuffer.New[E](cfg.Cap)
		h.Obj, h.Container, h.AsJSON = c, c, c
		h.Add, h.AddN, h.Take, h.Peek, h.Clear = c.Enqueue, addEach(c.Enqueue), c.Dequeue, c.Peek, c.Clear
		h.Size, h.Empty, h.Values, h.String, h.Full = c.Size, c.Empty, c.Values, c.String, c.Full
		h.ToJSON, h.FromJSON = c.ToJSON, c.FromJSON
		h.Iterate = func() (ks, vs []E) {
			for it := c.Iterator(); it.Next(); {
				vs = append(vs, it.Value())
			}
			return nil, vs
		}
	case "priorityqueue":
		c := priorityqueue.NewWith[E](less)
		h.Obj, h.Container, h.AsJSON = c, c, c
		h.Add, h.AddN, h.Take, h.Peek, h.Clear = c.Enqueue, addEach(c.Enqueue), c.Dequeue, c.Peek, c.Clear
		h.Size, h.Empty, h.Values, h.String = c.Size, c.Empty, c.Values, c.String
		h.ToJSON, h.FromJSON = c.ToJSON, c.FromJSON
		h.Iterate = func() (ks, vs []E) {
			for it := c.Iterator(); it.Next(); {
				vs = append(vs, it.Value())
			}
			return nil, vs
		}
	case "binaryheap":
		c := binaryheap.NewWith[E](less)
		h.Obj, h.Container, h.AsJSON = c, c, c
		h.Variadic = map[string]func(int, ...E){"Push": func(_ int, vs ...E) { c.Push(vs...) }}
		h.Add, h.AddN, h.Take, h.Peek, h.Clear = func(x E) { c.Push(x) }, c.Push, c.Pop, c.Peek, c.Clear
		h.Size, h.Empty, h.Values, h.String = c.Size, c.Empty, c.Values, c.String
		h.ToJSON, h.FromJSON = c.ToJSON, c.FromJSON
		h.Iterate = func() (ks, vs []E) {
			for it := c.Iterator(); it.Next(); {
				vs = append(vs, it.Value())
			}
			return nil, vs
		}
	case "hashmap":
		c := hashmap.New[E, E]()
		h.Obj, h.Container, h.AsJSON = c, c, c
		h.PutKV, h.RemKey, h.Get, h.Clear = c.Put, c.Remove, c.Get, c.Clear
		h.Size, h.Empty, h.Values, h.Keys, h.String = c.Size, c.Empty, c.Values, c.Keys, c.String
		h.ToJSON, h.FromJSON = c.ToJSON, c.FromJSON
	case "treemap":
		c := treemap.NewWith[E, E](less)
		h.Obj, h.Container, h.AsJSON = c, c, c
		h.PutKV, h.RemKey, h.Get, h.Clear = c.Put, c.Remove, c.Get, c.Clear
		h.Size, h.Empty, h.Values, h.Keys, h.String = c.Size, c.Empty, c.Values, c.Keys, c.String
		h.ToJSON, h.FromJSON = c.ToJSON, c.FromJSON
		h.Iterate = func() (ks, vs []E) {
			for it := c.Iterator(); it.Next(); {
				ks, vs = append(ks, it.Key()), append(vs, it.Value())
			}
			return
		}
	case "linkedhashmap":
		c := linkedhashmap.New[E, E]()
		h.Obj, h.Container, h.AsJSON = c, c, c
		h.PutKV, h.RemKey, h.Get, h.Clear = c.Put, c.Remove, c.Get, c.Clear
		h.Size, h.Empty, h.Values, h.Keys, h.String = c.Size, c.Empty, c.Values, c.Keys, c.String
		h.ToJSON, h.FromJSON = c.ToJSON, c.FromJSON
		h.Iterate = func() (ks, vs []E) {
			for it := c.Iterator(); it.Next(); {
				ks, vs = append(ks, it.Key()), append(vs, it.Value())
			}
			return
		}
	case "hashbidimap":
		c := hashbidimap.New[E, E]()
		h.Obj, h.Container, h.AsJSON = c, c, c
		h.PutKV, h.RemKey, h.Get, h.Clear = c.Put, c.Remove, c.Get, c.Clear
		h.Size, h.Empty, h.Values, h.Keys, h.String = c.Size, c.Empty, c.Values, c.Keys, c.String
		h.ToJSON, h.FromJSON = c.ToJSON, c.FromJSON
	case "treebidimap":
		c := treebidimap.NewWith[E, E](less, less)
		h.Obj, h.Container, h.AsJSON = c, c, c
		h.PutKV, h.RemKey, h.Get, h.Clear = c.Put, c.Remove, c.Get, c.Clear
		h.Size, h.Empty, h.Values, h.Keys, h.String = c.Size, c.Empty, c.Values, c.Keys, c.String
		h.ToJSON, h.FromJSON = c.ToJSON, c.FromJSON
		h.Iterate = func() (ks, vs []E) {
			for it := c.Iterator(); it.Next(); {
				ks, vs = append(ks, it.Key()), append(vs, it.Value())
			}
			return
		}
	case "redblacktree":
		c := redblacktree.NewWith[E, E](less)
		h.Obj, h.Container, h.AsJSON = c, c, c
		h.PutKV, h.RemKey, h.Get, h.Clear = c.Put, c.Remove, c.Get, c.Clear
		h.Size, h.Empty, h.Values, h.Keys, h.String = c.Size, c.Empty, c.Values, c.Keys, c.String
		h.ToJSON, h.FromJSON = c.ToJSON, c.FromJSON
		h.Iterate = func() (ks, vs []E) {
			for it := c.Iterator(); it.Next(); {
				ks, vs = append(ks, it.Key()), append(vs, it.Value())
			}
			return
		}
	case "avltree":
		c := avltree.NewWith[E, E](less)
		h.Obj, h.Container, h.AsJSON = c, c, c
		h.PutKV, h.RemKey, h.Get, h.Clear = c.Put, c.Remove, c.Get, c.Clear
		h.Size, h.Empty, h.Values, h.Keys, h.String = c.Size, c.Empty, c.Values, c.Keys, c.String
		h.ToJSON, h.FromJSON = c.ToJSON, c.FromJSON
		h.Iterate = func() (ks, vs []E) {
			for it := c.Iterator(); it.Next(); {
				ks, vs = append(ks, it.Key()), append(vs, it.Value())
			}
			return
		}
	case "btree":
		c := btree.NewWith[E, E](cfg.Order, less)
		h.Obj, h.Container, h.AsJSON = c, c, c
		h.PutKV, h.RemKey, h.Get, h.Clear = c.Put, c.Remove, c.Get, c.Clear
		h.Size, h.Empty, h.Values, h.Keys, h.String = c.Size, c.Empty, c.Values, c.Keys, c.String
		h.ToJSON, h.FromJSON = c.ToJSON, c.FromJSON
		h.Iterate = func() (ks, vs []E) {
			for it := c.Iterator(); it.Next(); {
				ks, vs = append(ks, it.Key()), append(vs, it.Value())
			}
			return
		}
	default:
		panic("all: unknown kind " + cfg.Kind)
	}
	if h.PutKV != nil {
		put := h.PutKV
		h.Add = func(x E) { put(x, x) }
		h.AddN = addEach(h.Add)
	}
	return h
}

// State is the full observable state of a container, normalised so that two
// equivalent containers give equal States: unordered kinds are sorted.
type State[E cmp.Ordered] struct {
	Size   int
	Keys   []E // key-value kinds
	Values []E
	Pairs  map[E]E // key-value kinds: Get of every key
	PeekOK bool
	PeekV  E
	JSON   string // normalised ToJSON (decoded and re-encoded for unordered kinds)
}

// Observe reads the state through the exported observers only.
func (h *H[E]) Observe() State[E] {
	s := State[E]{Size: h.Size()}
	s.Values = h.Values()
	if h.Keys != nil {
		s.Keys = h.Keys()
		s.Pairs = map[E]E{}
		for _, k := range s.Keys {
			v, _ := h.Get(k)
			s.Pairs[k] = v
		}
	}
	if Unordered(h.Cfg.Kind) {
		s.Values = slices.Clone(s.Values)
		slices.Sort(s.Values)
		s.Keys = slices.Clone(s.Keys)
		slices.Sort(s.Keys)
	}
	if Family(h.Cfg.Kind) == "heap" {
		// the layout is not part of the contract: multiset + peek
		s.Values = slices.Clone(s.Values)
		slices.Sort(s.Values)
	}
	if h.Peek != nil {
		s.PeekV, s.PeekOK = h.Peek()
	}
	return s
}

// EqualStates compares two states.
func EqualStates[E cmp.Ordered](a, b State[E]) bool {
	if a.Size != b.Size || a.PeekOK != b.PeekOK || a.PeekV != b.PeekV {
		return false
	}
	if !eq(a.Values, b.Values) || !eq(a.Keys, b.Keys) {
		return false
	}
	if len(a.Pairs) != len(b.Pairs) {
		return false
	}
	for k, v := range a.Pairs {
		if w, ok := b.Pairs[k]; !ok || w != v {
			return false
		}
	}
	return true
}

func eq[E comparable](a, b []E) bool {
	if len(a) == 0 && len(b) == 0 {
		return true
	}
	return slices.Equal(a, b)
}
