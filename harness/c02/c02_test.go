// C02 — comparator-ordered containers enumerate and navigate in sorted order.
package c02

import (
	"fmt"
	"slices"
	"testing"

	"github.com/emirpasic/gods/v2/maps/treebidimap"
	"github.com/emirpasic/gods/v2/maps/treemap"
	"github.com/emirpasic/gods/v2/sets/treeset"
	"github.com/emirpasic/gods/v2/trees/avltree"
	"github.com/emirpasic/gods/v2/trees/btree"
	"github.com/emirpasic/gods/v2/trees/redblacktree"
	"pgregory.net/rapid"

	"verif/harness/internal/dom"
	"verif/harness/internal/kvh"
	"verif/harness/internal/pbt"
	"verif/harness/internal/via"
)

func TestMain(m *testing.M) { pbt.Main(m, "C02") }

const TreeSet = "treeset"

type kv struct{ k, v int }

// ordered is the navigation surface of the six ordered containers.
type ordered struct {
	put     func(k, v int)
	rem     func(k int)
	clear   func()
	size    func() int
	keys    func() []int
	vals    func() []int // nil for TreeSet
	fwd     func() []kv  // Begin, Next...
	bwd     func() []kv  // End, Prev...
	min     func() (kv, bool)
	max     func() (kv, bool)
	floor   func(k int) (kv, bool)
	ceiling func(k int) (kv, bool)
	extra   func() error // kind-specific consistency between alternative accessors
	hasVals bool
	load    func([]byte) error // FromJSON
}

func build(c kvh.Case) *ordered {
	kc := dom.Cmp(c.Cmp)
	switch c.Kind {
	case kvh.RBT:
		t := redblacktree.NewWith[int, int](kc)
		nodeKV := func(n *redblacktree.Node[int, int], ok bool) (kv, bool) {
			if n == nil || !ok {
				return kv{}, false
			}
			return kv{n.Key, n.Value}, true
		}
		return &ordered{load: via.AutoLoader(t), put: t.Put, rem: t.Remove, clear: t.Clear, size: t.Size, keys: t.Keys, vals: t.Values, hasVals: true,
			fwd: func() []kv {
				var out []kv
				it := t.Iterator()
				for it.Next() {
					out = append(out, kv{it.Key(), it.Value()})
				}
				// the same iterator, run off the end and rewound, enumerates the same again
				var again []kv
				for it.Begin(); it.Next(); {
					again = append(again, kv{it.Key(), it.Value()})
				}
				if !slices.Equal(again, out) {
					return append(out, again...)
				}
				return out
			},
			bwd: func() []kv {
				var out []kv
				it := t.Iterator()
				for it.End(); it.Prev(); {
					out = append(out, kv{it.Key(), it.Value()})
				}
				var again []kv
				for it.End(); it.Prev(); {
					again = append(again, kv{it.Key(), it.Value()})
				}
				if !slices.Equal(again, out) {
					return append(out, again...)
				}
				return out
			},
			min:   func() (kv, bool) { n := t.Left(); return nodeKV(n, n != nil) },
			max:   func() (kv, bool) { n := t.Right(); return nodeKV(n, n != nil) },
			floor: func(k int) (kv, bool) { n, ok := t.Floor(k); return nodeKV(n, ok) },
			ceiling: func(k int) (kv, bool) {
				n, ok := t.Ceiling(k)
				return nodeKV(n, ok)
			},
			extra: func() error {
				for _, k := range []int{0, 3} {
					n, ok := t.Floor(k)
					if ok != (n != nil) {
						return fmt.Errorf("Floor(%d) returned node %v with found=%v", k, n, ok)
					}
					n, ok = t.Ceiling(k)
					if ok != (n != nil) {
						return fmt.Errorf("Ceiling(%d) returned node %v with found=%v", k, n, ok)
					}
				}
				return nil
			},
		}
	case kvh.AVL:
		t := avltree.NewWith[int, int](kc)
		nodeKV := func(n *avltree.Node[int, int], ok bool) (kv, bool) {
			if n == nil || !ok {
				return kv{}, false
			}
			return kv{n.Key, n.Value}, true
		}
		return &ordered{load: via.AutoLoader(t), put: t.Put, rem: t.Remove, clear: t.Clear, size: t.Size, keys: t.Keys, vals: t.Values, hasVals: true,
			fwd: func() []kv {
				var out []kv
				it := t.Iterator()
				for it.Next() {
					out = append(out, kv{it.Key(), it.Value()})
				}
				// the same iterator, run off the end and rewound, enumerates the same again
				var again []kv
				for it.Begin(); it.Next(); {
					again = append(again, kv{it.Key(), it.Value()})
				}
				if !slices.Equal(again, out) {
					return append(out, again...)
				}
				return out
			},
			bwd: func() []kv {
				var out []kv
				it := t.Iterator()
				for it.End(); it.Prev(); {
					out = append(out, kv{it.Key(), it.Value()})
				}
				var again []kv
				for it.End(); it.Prev(); {
					again = append(again, kv{it.Key(), it.Value()})
				}
				if !slices.Equal(again, out) {
					return append(out, again...)
				}
				return out
			},
			min:     func() (kv, bool) { n := t.Left(); return nodeKV(n, n != nil) },
			max:     func() (kv, bool) { n := t.Right(); return nodeKV(n, n != nil) },
			floor:   func(k int) (kv, bool) { n, ok := t.Floor(k); return nodeKV(n, ok) },
			ceiling: func(k int) (kv, bool) { n, ok := t.Ceiling(k); return nodeKV(n, ok) },
			extra: func() error {
				// Node.Next/Prev walk the same sequence as the iterator
				var viaNodes []int
				for n := t.Left(); n != nil; n = n.Next() {
					viaNodes = append(viaNodes, n.Key)
					if len(viaNodes) > t.Size()+1 {
						return fmt.Errorf("Node.Next() walk does not terminate after %d steps", len(viaNodes))
					}
				}
				ks := t.Keys()
				if len(viaNodes) != len(ks) {
					return fmt.Errorf("Left()/Node.Next() walk visits %v, Keys()=%v", viaNodes, ks)
				}
				for i := range ks {
					if viaNodes[i] != ks[i] {
						return fmt.Errorf("Left()/Node.Next() walk visits %v, Keys()=%v", viaNodes, ks)
					}
				}
				var back []int
				for n := t.Right(); n != nil; n = n.Prev() {
					back = append(back, n.Key)
					if len(back) > t.Size()+1 {
						return fmt.Errorf("Node.Prev() walk does not terminate")
					}
				}
				for i := range back {
					if len(back) != len(ks) || back[i] != ks[len(ks)-1-i] {
						return fmt.Errorf("Right()/Node.Prev() walk visits %v, Keys()=%v", back, ks)
					}
				}
				return nil
			},
		}
	case kvh.BTree:
		t := btree.NewWith[int, int](c.Order, kc)
		return &ordered{load: via.AutoLoader(t), put: t.Put, rem: t.Remove, clear: t.Clear, size: t.Size, keys: t.Keys, vals: t.Values, hasVals: true,
			fwd: func() []kv {
				var out []kv
				it := t.Iterator()
				for it.Next() {
					out = append(out, kv{it.Key(), it.Value()})
				}
				// the same iterator, run off the end and rewound, enumerates the same again
				var again []kv
				for it.Begin(); it.Next(); {
					again = append(again, kv{it.Key(), it.Value()})
				}
				if !slices.Equal(again, out) {
					return append(out, again...)
				}
				return out
			},
			bwd: func() []kv {
				var out []kv
				it := t.Iterator()
				for it.End(); it.Prev(); {
					out = append(out, kv{it.Key(), it.Value()})
				}
				var again []kv
				for it.End(); it.Prev(); {
					again = append(again, kv{it.Key(), it.Value()})
				}
				if !slices.Equal(again, out) {
					return append(out, again...)
				}
				return out
			},
			min: func() (kv, bool) {
				n := t.Left()
				if n == nil {
					return kv{}, false
				}
				return kv{n.Entries[0].Key, n.Entries[0].Value}, true
			},
			max: func() (kv, bool) {
				n := t.Right()
				if n == nil {
					return kv{}, false
				}
				e := n.Entries[len(n.Entries)-1]
				return kv{e.Key, e.Value}, true
			},
			extra: func() error {
				lk, lv, rk, rv := t.LeftKey(), t.LeftValue(), t.RightKey(), t.RightValue()
				if t.Size() == 0 {
					if lk != nil || lv != nil || rk != nil || rv != nil {
						return fmt.Errorf("LeftKey/LeftValue/RightKey/RightValue on empty tree = %v %v %v %v, want nil", lk, lv, rk, rv)
					}
					return nil
				}
				ks, vs := t.Keys(), t.Values()
				if lk != any(ks[0]) || lv != any(vs[0]) || rk != any(ks[len(ks)-1]) || rv != any(vs[len(vs)-1]) {
					return fmt.Errorf("LeftKey/LeftValue/RightKey/RightValue = %v %v %v %v, Keys()=%v Values()=%v", lk, lv, rk, rv, ks, vs)
				}
				return nil
			},
		}
	case kvh.TreeMap:
		t := treemap.NewWith[int, int](kc)
		return &ordered{load: via.AutoLoader(t), put: t.Put, rem: t.Remove, clear: t.Clear, size: t.Size, keys: t.Keys, vals: t.Values, hasVals: true,
			fwd: func() []kv {
				var out []kv
				it := t.Iterator()
				for it.Next() {
					out = append(out, kv{it.Key(), it.Value()})
				}
				// the same iterator, run off the end and rewound, enumerates the same again
				var again []kv
				for it.Begin(); it.Next(); {
					again = append(again, kv{it.Key(), it.Value()})
				}
				if !slices.Equal(again, out) {
					return append(out, again...)
				}
				return out
			},
			bwd: func() []kv {
				var out []kv
				it := t.Iterator()
				for it.End(); it.Prev(); {
					out = append(out, kv{it.Key(), it.Value()})
				}
				var again []kv
				for it.End(); it.Prev(); {
					again = append(again, kv{it.Key(), it.Value()})
				}
				if !slices.Equal(again, out) {
					return append(out, again...)
				}
				return out
			},
			min:     func() (kv, bool) { k, v, ok := t.Min(); return kv{k, v}, ok },
			max:     func() (kv, bool) { k, v, ok := t.Max(); return kv{k, v}, ok },
			floor:   func(k int) (kv, bool) { fk, fv, ok := t.Floor(k); return kv{fk, fv}, ok },
			ceiling: func(k int) (kv, bool) { fk, fv, ok := t.Ceiling(k); return kv{fk, fv}, ok },
		}
	case TreeSet:
		s := treeset.NewWith[int](kc)
		return &ordered{load: via.AutoLoader(s), put: func(k, _ int) { s.Add(k) }, rem: func(k int) { s.Remove(k) }, clear: s.Clear, size: s.Size, keys: s.Values,
			fwd: func() []kv {
				var out []kv
				it := s.Iterator()
				for it.Next() {
					out = append(out, kv{it.Value(), it.Index()})
				}
				// the same iterator, run off the end and rewound, enumerates the same again
				var again []kv
				for it.Begin(); it.Next(); {
					again = append(again, kv{it.Value(), it.Index()})
				}
				if !slices.Equal(again, out) {
					return append(out, again...)
				}
				return out
			},
			bwd: func() []kv {
				var out []kv
				it := s.Iterator()
				for it.End(); it.Prev(); {
					out = append(out, kv{it.Value(), it.Index()})
				}
				var again []kv
				for it.End(); it.Prev(); {
					again = append(again, kv{it.Value(), it.Index()})
				}
				if !slices.Equal(again, out) {
					return append(out, again...)
				}
				return out
			},
		}
	case kvh.TreeBidi:
		t := treebidimap.NewWith[int, int](kc, dom.Cmp(c.VCmp))
		return &ordered{load: via.AutoLoader(t), put: t.Put, rem: t.Remove, clear: t.Clear, size: t.Size, keys: t.Keys, vals: t.Values, hasVals: true,
			fwd: func() []kv {
				var out []kv
				it := t.Iterator()
				for it.Next() {
					out = append(out, kv{it.Key(), it.Value()})
				}
				// the same iterator, run off the end and rewound, enumerates the same again
				var again []kv
				for it.Begin(); it.Next(); {
					again = append(again, kv{it.Key(), it.Value()})
				}
				if !slices.Equal(again, out) {
					return append(out, again...)
				}
				return out
			},
			bwd: func() []kv {
				var out []kv
				it := t.Iterator()
				for it.End(); it.Prev(); {
					out = append(out, kv{it.Key(), it.Value()})
				}
				var again []kv
				for it.End(); it.Prev(); {
					again = append(again, kv{it.Key(), it.Value()})
				}
				if !slices.Equal(again, out) {
					return append(out, again...)
				}
				return out
			},
		}
	}
	panic("c02: unknown kind " + c.Kind)
}

func check(c kvh.Case) (pbt.Info, error) {
	var info pbt.Info
	o := build(c)
	bidi := c.Kind == kvh.TreeBidi
	m := kvh.NewModel(c.Cmp)
	bm := kvh.NewBidiModel()
	ops := kvh.Expand(c.Ops)
	nt := false
	seen := map[string]bool{}
	label := func(l string) {
		if !seen[l] {
			seen[l] = true
			info.Label(l)
		}
	}
	if c.Cmp != dom.Nat {
		label("cmp:" + c.Cmp)
	}
	fail := func(i int, op kvh.Op, format string, a ...any) (pbt.Info, error) {
		return info, fmt.Errorf("%s step %d %s(%d): %s", c.Describe(), i, op.O, op.K, fmt.Sprintf(format, a...))
	}
	// sync the comparator-ordered model from the bidi model when needed
	ents := func() []kvh.Ent {
		if !bidi {
			return m.Sorted()
		}
		mm := kvh.NewModel(c.Cmp)
		for k, v := range bm.Fwd {
			mm.Put(k, v)
		}
		return mm.Sorted()
	}
	for i, op := range ops {
		probe := op.K
		switch op.O {
		case "put":
			o.put(op.K, op.V)
			if bidi {
				bm.Put(op.K, op.V)
			} else {
				m.Put(op.K, op.V)
			}
		case "rem":
			o.rem(op.K)
			if bidi {
				bm.Remove(op.K)
			} else {
				m.Remove(op.K)
			}
		case "clear":
			o.clear()
			m.Clear()
			bm.Clear()
		case "load":
			// a FromJSON load is part of "any history": the document replaces the
			// content, after Min/Max/Floor/... have been answered for the old content
			pairs := kvh.LoadPairs(c.Cmp, op.L)
			doc := kvh.LoadDoc(pairs, c.Kind == TreeSet)
			if err := o.load(doc); err != nil {
				return fail(i, op, "FromJSON(%s) failed: %v", doc, err)
			}
			m.Clear()
			bm.Clear()
			for _, p := range pairs {
				v := p[1]
				if c.Kind == TreeSet {
					v = 0
				}
				if bidi {
					bm.Put(p[0], v)
				} else {
					m.Put(p[0], v)
				}
			}
			label("load")
		case "get", "probe":
		default:
			return info, fmt.Errorf("bad op %q", op.O)
		}
		es := ents()
		n := len(es)
		mm := m
		if bidi {
			mm = kvh.NewModel(c.Cmp)
			for _, e := range es {
				mm.Put(e.K, e.V)
			}
		}
		// --- enumeration: Keys/Values, forward and backward iteration ---
		keys := o.keys()
		if len(keys) != n {
			return fail(i, op, "Keys()=%v, model has %d keys", keys, n)
		}
		for j := range keys {
			if !mm.Same(keys[j], es[j].K) {
				return fail(i, op, "Keys()=%v: position %d should hold %d", keys, j, es[j].K)
			}
			if j > 0 && mm.Cmp(keys[j-1], keys[j]) >= 0 {
				return fail(i, op, "Keys()=%v not strictly ascending under %s at position %d", keys, c.Cmp, j)
			}
		}
		if o.hasVals {
			vals := o.vals()
			if len(vals) != n {
				return fail(i, op, "Values()=%v, model has %d", vals, n)
			}
			if bidi {
				var wv []int
				for _, e := range es {
					wv = append(wv, e.V)
				}
				wv = dom.SortedBy(c.VCmp, wv)
				vc := dom.Cmp(c.VCmp)
				for j := range vals {
					if vals[j] != wv[j] {
						return fail(i, op, "Values()=%v, want %v (value comparator %s)", vals, wv, c.VCmp)
					}
					if j > 0 && vc(vals[j-1], vals[j]) >= 0 {
						return fail(i, op, "Values()=%v not strictly ascending under value comparator %s", vals, c.VCmp)
					}
				}
			} else {
				for j := range vals {
					if vals[j] != es[j].V {
						return fail(i, op, "Values()=%v: position %d should hold %d (key %d)", vals, j, es[j].V, es[j].K)
					}
				}
			}
		}
		fw, bw := o.fwd(), o.bwd()
		if len(fw) != n || len(bw) != n {
			return fail(i, op, "forward iteration yields %d, backward %d elements, model has %d", len(fw), len(bw), n)
		}
		for j := range fw {
			wantV := es[j].V
			if c.Kind == TreeSet {
				wantV = j // the "value" slot carries Index()
			}
			if !mm.Same(fw[j].k, es[j].K) || fw[j].v != wantV {
				return fail(i, op, "forward iteration position %d = %v, want (%d,%d)", j, fw[j], es[j].K, wantV)
			}
			b := bw[n-1-j]
			if !mm.Same(b.k, es[j].K) || b.v != wantV {
				return fail(i, op, "backward iteration position %d = %v, want (%d,%d)", j, b, es[j].K, wantV)
			}
		}
		// --- ends ---
		if o.min != nil {
			got, ok := o.min()
			if ok != (n > 0) || ok && (!mm.Same(got.k, es[0].K) || got.v != es[0].V) {
				return fail(i, op, "least element = (%v,%v), model keys %v", got, ok, keysOf(es))
			}
			got, ok = o.max()
			if ok != (n > 0) || ok && (!mm.Same(got.k, es[n-1].K) || got.v != es[n-1].V) {
				return fail(i, op, "greatest element = (%v,%v), model keys %v", got, ok, keysOf(es))
			}
		}
		if o.extra != nil {
			if err := o.extra(); err != nil {
				return fail(i, op, "%v", err)
			}
		}
		// --- Floor / Ceiling at the touched key, its neighbours and the extremes ---
		if o.floor != nil {
			probes := []int{probe, probe - 1, probe + 1}
			if n > 0 {
				probes = append(probes, es[0].K-1, es[n-1].K+1, es[(i*5)%n].K)
			}
			for _, p := range probes {
				we, wok := mm.Floor(p)
				got, ok := o.floor(p)
				if ok != wok || ok && (!mm.Same(got.k, we.K) || got.v != we.V) {
					return fail(i, op, "Floor(%d) = (%v,%v), want (%v,%v); keys %v", p, got, ok, kv{we.K, we.V}, wok, keysOf(es))
				}
				we, wok = mm.Ceiling(p)
				got, ok = o.ceiling(p)
				if ok != wok || ok && (!mm.Same(got.k, we.K) || got.v != we.V) {
					return fail(i, op, "Ceiling(%d) = (%v,%v), want (%v,%v); keys %v", p, got, ok, kv{we.K, we.V}, wok, keysOf(es))
				}
				if n >= 3 {
					_, present := mm.Get(p)
					if !present {
						nt = true
						if mm.Cmp(p, es[0].K) < 0 || mm.Cmp(p, es[n-1].K) > 0 {
							label("probe:out-of-range")
						} else {
							label("probe:between-neighbours")
						}
					}
				}
			}
		}
		if n >= 3 && c.Cmp != dom.Nat {
			nt = true
		}
		if n >= 3 && o.floor == nil && (op.O == "rem" || op.O == "put") {
			nt = true // navigation-free kinds: any mutation of a >=3-key container re-checks the full order
		}
	}
	info.NonTrivial = nt
	return info, nil
}

func keysOf(es []kvh.Ent) []int {
	out := make([]int, len(es))
	for i, e := range es {
		out[i] = e.K
	}
	return out
}

var kinds = []string{kvh.RBT, kvh.AVL, kvh.BTree, kvh.TreeMap, TreeSet, kvh.TreeBidi}

type rapidT = rapid.T

func params(kind string) kvh.GenParams {
	p := kvh.GenParams{Kind: kind, MaxOps: 40, RunMax: 16, Stride: 3, Probes: true, Loads: true, Cmps: dom.AllCmps}
	if kind == kvh.TreeBidi {
		p.Cmps = dom.TotalCmps
		p.SmallVals = true
	}
	return p
}

func TestGenerated(t *testing.T) {
	for _, kind := range kinds {
		p := params(kind)
		g := kvh.Gen(p)
		if kind == TreeSet {
			// generate as an ordered map kind, then relabel
			p.Kind = kvh.TreeMap
			inner := kvh.Gen(p)
			g = func(t *rapidT) kvh.Case { c := inner(t); c.Kind = TreeSet; return c }
		}
		pbt.Run(t, pbt.Target[kvh.Case]{Name: kind, Checks: 20000, Gen: g, Check: check})
	}
}
