#!/usr/bin/env python3
"""Builds the seconds-long replay tier from the seeded changes.

For each /verif/seeded/<name>/ the quick check of its property is run against a scratch worktree
with the change applied (tools/try_mutant.sh); the shrunk failing case it reports is copied to
/verif/regressions/<property>/seed-<name>.json.  Regression cases are run first by shard 0 of
every run of that property (they all pass on the unchanged tree; a file whose case fails there is
a bug in this script's selection, not a finding, and must be deleted).

usage: tools/harvest_seeds.py [-j N] [names...]
"""
import json, os, re, subprocess, sys, glob, shutil
from concurrent.futures import ThreadPoolExecutor

args = sys.argv[1:]
jobs = 4
if args and args[0] == '-j':
    jobs = int(args[1]); args = args[2:]
only = args
MAX = 48 * 1024


def one(d):
    name = os.path.basename(d.rstrip('/'))
    meta = json.load(open(d + 'meta.json'))
    pid = meta['property']
    dst = '/verif/regressions/%s/seed-%s.json' % (pid, name)
    if os.path.exists(dst):
        return name, 'kept'
    out = subprocess.run(['tools/try_mutant.sh', d + 'patch.diff', pid], capture_output=True, text=True, cwd='/verif').stdout
    paths = re.findall(r'VIOLATION property=%s replay=(\S+)' % pid, out)
    for p in paths:
        if not os.path.isfile(p) or os.path.getsize(p) > MAX:
            continue
        try:
            rf = json.load(open(p))
        except Exception:
            continue
        if 'case' not in rf or 'target' not in rf:
            continue
        rf['origin'] = 'shrunk failing case of the quick check under seeded/%s/patch.diff; passes on the unchanged tree' % name
        os.makedirs(os.path.dirname(dst), exist_ok=True)
        json.dump(rf, open(dst, 'w'), indent=1)
        return name, 'harvested %s (%d bytes)' % (rf['target'], os.path.getsize(dst))
    return name, 'nothing usable (%d violation lines)' % len(paths)


dirs = [d for d in sorted(glob.glob('/verif/seeded/*/')) if not only or os.path.basename(d.rstrip('/')) in only]
with ThreadPoolExecutor(jobs) as ex:
    for name, what in ex.map(one, dirs):
        print(name, what, flush=True)
