package main

import "time"

func q(shards int, scale float64) tierCfg {
	return tierCfg{Shards: shards, Scale: scale, Timeout: 10 * time.Minute}
}
func th(shards int, scale float64) tierCfg {
	return tierCfg{Shards: shards, Scale: scale, Timeout: 60 * time.Minute}
}

var commonAssume = []string{
	"the Go toolchain, encoding/json and pgregory.net/rapid behave as documented",
	"the reference models in /verif/harness are correct (they are a few lines each and were calibrated against the unchanged tree)",
	"element and key types are int / string / small comparable structs; other instantiations share the same generic code",
}

var props = []propCfg{
	{ID: "C05", Pkg: "c05", Quick: q(4, 1), Thorough: th(16, 20),
		Rule: "cases = (kind, capacity, script of add/take/peek/clear with concrete values), drawn by rapid per kind (looped, equal budgets) plus every script of a fixed length over {add,take,clear} for ring capacities 1..4 and the four unbounded kinds; oracle = slice model compared after every step (return values, Size, Empty, Values, Peek, Full) and a final drain. Non-trivial: ring — at least one eviction AND one successful dequeue AND more enqueues than the capacity (wrapped); stacks/queues — a take after an add after a take. Distinct = FNV-64 of the canonical JSON of the case, merged exactly across shards.",
		Assume: commonAssume},
}
