// C04 — sets hold each member once and answer membership exactly.
package c04

import (
	"encoding/json"
	"fmt"
	"slices"
	"testing"

	"github.com/emirpasic/gods/v2/sets/hashset"
	"github.com/emirpasic/gods/v2/sets/linkedhashset"
	"github.com/emirpasic/gods/v2/sets/treeset"
	"pgregory.net/rapid"

	"verif/harness/internal/dom"
	"verif/harness/internal/pbt"
	"verif/harness/internal/via"
)

func TestMain(m *testing.M) { pbt.Main(m, "C04") }

type Op struct {
	O  string `json:"o"` // add, remove, clear, contains
	Vs []int  `json:"vs,omitempty"`
}

type Case struct {
	Init []int `json:"init"`         // constructor values
	Hi   int   `json:"hi,omitempty"` // values are drawn from 0..Hi (0 = the default small domain)
	Ops  []Op  `json:"ops"`
}

type set interface {
	Add(items ...int)
	Remove(items ...int)
	Contains(items ...int) bool
	Clear()
	Size() int
	Empty() bool
	Values() []int
	FromJSON([]byte) error
	UnmarshalJSON([]byte) error
}

const domainHi = 8

func check(c Case) (pbt.Info, error) {
	var info pbt.Info
	domainHi := domainHi
	if c.Hi > 0 {
		domainHi = c.Hi
	}
	names := []string{"HashSet", "TreeSet(natural)", "TreeSet(reversed)", "TreeSet(k>>1)", "LinkedHashSet"}
	sets := []set{hashset.New(c.Init...), treeset.NewWith(dom.Cmp(dom.Nat), c.Init...), treeset.NewWith(dom.Cmp(dom.Rev), c.Init...),
		treeset.NewWith(dom.Cmp(dom.Half), c.Init...), linkedhashset.New(c.Init...)}
	// model: membership by ==, except the coarse TreeSet where members are classes k>>1
	exact := map[int]bool{}
	coarse := map[int]bool{}
	add := func(v int) { exact[v] = true; coarse[v>>1] = true }
	rem := func(v int) { delete(exact, v); delete(coarse, v>>1) }
	var dupInCall, reAdd, memberRemoved bool
	everRemoved := map[int]bool{}
	for _, v := range c.Init {
		if exact[v] {
			dupInCall = true
		}
		add(v)
	}
	observe := func(step int, what string) error {
		for si, s := range sets {
			isCoarse := si == 3
			size := len(exact)
			if isCoarse {
				size = len(coarse)
			}
			if s.Size() != size || s.Empty() != (size == 0) {
				return fmt.Errorf("%s step %d %s: Size()=%d Empty()=%v, model has %d members", names[si], step, what, s.Size(), s.Empty(), size)
			}
			vals := s.Values()
			if len(vals) != size {
				return fmt.Errorf("%s step %d %s: Values()=%v lists %d elements, model has %d members", names[si], step, what, sortedIf(si, vals), len(vals), size)
			}
			seen := map[int]bool{}
			for _, v := range vals {
				key := v
				if isCoarse {
					key = v >> 1
				}
				if seen[key] {
					return fmt.Errorf("%s step %d %s: Values()=%v lists a member twice", names[si], step, what, sortedIf(si, vals))
				}
				seen[key] = true
				if isCoarse && !coarse[key] || !isCoarse && !exact[key] {
					return fmt.Errorf("%s step %d %s: Values()=%v lists %d, which is not a member", names[si], step, what, sortedIf(si, vals), v)
				}
			}
			stride := 1
			if domainHi > 100 {
				stride = 7
			}
			for x := -1; x <= domainHi+1; x += stride {
				want := exact[x]
				if isCoarse {
					want = coarse[x>>1]
				}
				if got := s.Contains(x); got != want {
					return fmt.Errorf("%s step %d %s: Contains(%d)=%v, want %v", names[si], step, what, x, got, want)
				}
			}
			if !s.Contains() {
				return fmt.Errorf("%s step %d %s: Contains() with no arguments = false", names[si], step, what)
			}
		}
		return nil
	}
	if err := observe(-1, "New"); err != nil {
		return info, err
	}
	for i, op := range c.Ops {
		switch op.O {
		case "add":
			inCall := map[int]bool{}
			for _, v := range op.Vs {
				if inCall[v] {
					dupInCall = true
				}
				inCall[v] = true
				if everRemoved[v] && !exact[v] {
					reAdd = true
				}
				add(v)
			}
			for _, s := range sets {
				s.Add(op.Vs...)
			}
		case "remove":
			for _, v := range op.Vs {
				if exact[v] {
					memberRemoved = true
					everRemoved[v] = true
				}
			}
			// each model follows its own semantics: the exact sets lose v, the
			// coarse TreeSet loses the whole class v>>1
			for _, v := range op.Vs {
				rem(v)
			}
			for _, s := range sets {
				s.Remove(op.Vs...)
			}
		case "clear":
			exact, coarse = map[int]bool{}, map[int]bool{}
			for _, s := range sets {
				s.Clear()
			}
		case "load":
			// a state reached through FromJSON is a reachable state: the array (with
			// its repeats) replaces the members, and the set keeps answering exactly
			exact, coarse = map[int]bool{}, map[int]bool{}
			for _, v := range op.Vs {
				add(v)
			}
			doc, _ := json.Marshal(append([]int{}, op.Vs...))
			for si, s := range sets {
				if err := via.Auto(s, doc); err != nil {
					return info, fmt.Errorf("%s step %d: FromJSON(%s) failed: %v", names[si], i, doc, err)
				}
			}
		case "contains":
			for si, s := range sets {
				want := true
				for _, v := range op.Vs {
					if si == 3 && !coarse[v>>1] || si != 3 && !exact[v] {
						want = false
					}
				}
				if got := s.Contains(op.Vs...); got != want {
					return info, fmt.Errorf("%s step %d: Contains(%v)=%v, want %v", names[si], i, op.Vs, got, want)
				}
			}
			continue
		default:
			return info, fmt.Errorf("bad op %q", op.O)
		}
		if err := observe(i, fmt.Sprintf("%s(%v)", op.O, op.Vs)); err != nil {
			return info, err
		}
	}
	if dupInCall {
		info.Label("dup-inside-one-call")
	}
	if reAdd {
		info.Label("re-add-after-removal")
	}
	info.NonTrivial = (dupInCall || reAdd) && memberRemoved
	return info, nil
}

// sortedIf sorts the listing of the unordered hash set for a deterministic message.
func sortedIf(si int, vals []int) []int {
	if si == 0 {
		out := slices.Clone(vals)
		slices.Sort(out)
		return out
	}
	return vals
}

func vals(t *rapid.T, label string, maxN int) []int {
	if rapid.IntRange(0, 11).Draw(t, "long-variadic") == 0 {
		// far more arguments than members: 8..40 values (duplicates guaranteed in a 9-value domain)
		return rapid.SliceOfN(rapid.IntRange(0, domainHi), 8, 40).Draw(t, label)
	}
	return rapid.SliceOfN(rapid.IntRange(0, domainHi), 0, maxN).Draw(t, label)
}

func gen(t *rapid.T) Case {
	var c Case
	c.Init = vals(t, "init", 5)
	n := rapid.IntRange(0, 30).Draw(t, "n")
	for i := 0; i < n; i++ {
		switch dom.Weighted(t, "op", 1, 40, 30, 2, 10, 2) {
		case 5:
			c.Ops = append(c.Ops, Op{O: "load", Vs: vals(t, "doc", 8)})
		case 0:
		case 1:
			c.Ops = append(c.Ops, Op{O: "add", Vs: vals(t, "vs", 6)})
		case 2:
			c.Ops = append(c.Ops, Op{O: "remove", Vs: vals(t, "vs", 4)})
		case 3:
			c.Ops = append(c.Ops, Op{O: "clear"})
		case 4:
			c.Ops = append(c.Ops, Op{O: "contains", Vs: vals(t, "vs", 3)})
		}
	}
	return c
}

// genLarge: a 48-value domain and long histories, so that the tree-backed sets
// reach depth-4 shapes and the rarely taken deletion cases of the red-black tree.
func genLarge(t *rapid.T) Case {
	c := Case{Hi: 47}
	huge := rapid.IntRange(0, 5).Draw(t, "huge") == 0
	if huge {
		c.Hi = pbt.Size(420) // hundreds of members (thorough tier: well over a thousand)
	}
	v := func(label string, maxN int) []int {
		if huge && rapid.IntRange(0, 15).Draw(t, "ladder-args") == 9 {
			// one call past the sizes at which an implementation may switch strategy
			k := []int{513, 1025, 2049}[rapid.IntRange(0, 2).Draw(t, "ladder-size")]
			a, b := rapid.IntRange(0, c.Hi).Draw(t, "ladder-a"), rapid.IntRange(1, 12).Draw(t, "ladder-b")
			out := make([]int, k)
			for i := range out {
				out[i] = (a + i*b + (i*i)%7) % (c.Hi + 1)
			}
			return out
		}
		if huge && rapid.IntRange(0, 3).Draw(t, "many-args") == 0 {
			return rapid.SliceOfN(rapid.IntRange(0, c.Hi), 9, 40).Draw(t, label)
		}
		return rapid.SliceOfN(rapid.IntRange(0, c.Hi), 0, maxN).Draw(t, label)
	}
	c.Init = v("init", 20)
	if huge {
		n := rapid.IntRange(150, pbt.Size(400)).Draw(t, "fill")
		start := rapid.IntRange(0, c.Hi).Draw(t, "fillstart")
		for i := 0; i < n; i++ {
			c.Init = append(c.Init, (start+i*11)%(c.Hi+1))
		}
	}
	for chunk := 0; chunk < 4; chunk++ {
		ops := rapid.SliceOfN(rapid.Custom(func(t *rapid.T) Op {
			switch dom.Weighted(t, "op", 45, 45, 1, 9, 1) {
			case 4:
				return Op{O: "load", Vs: v("doc", 60)}
			case 0:
				return Op{O: "add", Vs: v("vs", 4)}
			case 1:
				return Op{O: "remove", Vs: v("vs", 3)}
			case 2:
				return Op{O: "clear"}
			default:
				return Op{O: "contains", Vs: v("vs", 3)}
			}
		}), 0, 25).Draw(t, "ops")
		c.Ops = append(c.Ops, ops...)
	}
	return c
}

func TestGenerated(t *testing.T) {
	pbt.Run(t, pbt.Target[Case]{Name: "all-sets", Checks: 40000, Gen: gen, Check: check})
	pbt.Run(t, pbt.Target[Case]{Name: "all-sets/large-domain", Checks: 3000, Gen: genLarge, Check: check})
}
