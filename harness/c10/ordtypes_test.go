package c10

import (
	"testing"

	"pgregory.net/rapid"

	"verif/harness/internal/ordtypes"
	"verif/harness/internal/pbt"
)

// TestDefaultConstructorOrder: the six comparator-ordered kinds built by New: ascending Keys() under cmp.Compare, equal keys one key, Min/Max, Floor/Ceiling, lookups, over
// a family of ordered element types the other targets do not instantiate (named float
// types with NaN, 64-bit integers at the ends of their ranges, 8-bit integers, named
// strings, ...): see internal/ordtypes.
func TestDefaultConstructorOrder(t *testing.T) {
	for _, typ := range ordtypes.Types {
		typ := typ
		pbt.Run(t, pbt.Target[ordtypes.Case]{Name: "default-constructors/" + typ, Checks: 300, Gen: func(t *rapid.T) ordtypes.Case {
			idx := rapid.IntRange(0, 40)
			return ordtypes.Case{Type: typ, Order: rapid.IntRange(3, 6).Draw(t, "order"),
				Inserts: rapid.SliceOfN(idx, 0, 14).Draw(t, "inserts"),
				Removes: rapid.SliceOfN(idx, 0, 8).Draw(t, "removes"),
				Probes:  rapid.SliceOfN(idx, 0, 4).Draw(t, "probes")}
		}, Check: func(c ordtypes.Case) (pbt.Info, error) {
			return pbt.Info{NonTrivial: len(c.Inserts) >= 4}, ordtypes.Sorted(c)
		}})
	}
}
