package c03

import (
	"encoding/json"
	"fmt"
	"reflect"
	"strings"
	"testing"

	"github.com/emirpasic/gods/v2/lists/arraylist"
	"github.com/emirpasic/gods/v2/lists/doublylinkedlist"
	"github.com/emirpasic/gods/v2/lists/singlylinkedlist"
	"pgregory.net/rapid"

	"verif/harness/internal/pbt"
	"verif/harness/internal/via"
)

// Lists of interface-typed elements that hold values which cannot be hashed or
// compared with themselves — the nested arrays and objects that FromJSON of a
// nested document puts into a List[any].  Such elements are legal list members
// (a list, unlike a set, never needs to hash its elements); probes handed to
// Contains / IndexOf are always comparable scalars, for which == against any
// element is defined.  The model is a []any with the same == on probes.

type UHOp struct {
	O  string `json:"o"`            // add | insert | remove | set | swap | contains | indexof | get | load
	I  int    `json:"i,omitempty"`  // index (relative: taken modulo size+2, minus 1)
	J  int    `json:"j,omitempty"`  // second index
	Vs []int  `json:"vs,omitempty"` // indices into uhValues (elements) or uhProbes (probes)
}

type UHCase struct {
	Kind string `json:"kind"`
	Ops  []UHOp `json:"ops"`
}

// JSON texts of the element domain: scalars, then unhashable values.
var uhValues = []string{`null`, `1`, `"a"`, `true`, `2`, `""`, `[2,3]`, `{"k":true}`, `[]`, `{}`, `[[1]]`, `[2,3]`}
var uhProbes = []string{`null`, `1`, `"a"`, `true`, `2`, `""`, `3`, `"k"`, `false`}

func uhDecode(s string) any {
	var v any
	if err := json.Unmarshal([]byte(s), &v); err != nil {
		panic(err)
	}
	return v
}

type uhList interface {
	Add(...any)
	Insert(int, ...any)
	Remove(int)
	Set(int, any)
	Swap(int, int)
	Contains(...any) bool
	IndexOf(any) int
	Get(int) (any, bool)
	Values() []any
	Size() int
	via.In
}

func uhNew(kind string) uhList {
	switch kind {
	case "arraylist":
		return arraylist.New[any]()
	case "singlylinkedlist":
		return singlylinkedlist.New[any]()
	case "doublylinkedlist":
		return doublylinkedlist.New[any]()
	}
	panic(kind)
}

func uhShow(xs []any) string {
	b, _ := json.Marshal(xs)
	return string(b)
}

func checkUnhashable(c UHCase) (pbt.Info, error) {
	var info pbt.Info
	l := uhNew(c.Kind)
	var m []any
	multiProbe, nested := false, false
	for i, op := range c.Ops {
		fail := func(format string, a ...any) (pbt.Info, error) {
			return info, fmt.Errorf("%s[any] step %d %s: %s (model %s)", c.Kind, i, op.O, fmt.Sprintf(format, a...), uhShow(m))
		}
		vals := func(pool []string) []any {
			out := make([]any, 0, len(op.Vs))
			for _, x := range op.Vs {
				out = append(out, uhDecode(pool[x%len(pool)]))
			}
			return out
		}
		n := len(m)
		idx := func(x int) int { return x%(n+2) - 1 } // -1 .. n
		switch op.O {
		case "add":
			vs := vals(uhValues)
			l.Add(vs...)
			m = append(m, vs...)
		case "load":
			parts := make([]string, 0, len(op.Vs))
			for _, x := range op.Vs {
				parts = append(parts, uhValues[x%len(uhValues)])
			}
			doc := "[" + strings.Join(parts, ",") + "]"
			if err := via.Auto(l, []byte(doc)); err != nil {
				return fail("%s(%s) failed: %v", via.AutoName([]byte(doc)), doc, err)
			}
			m = vals(uhValues)
		case "insert":
			vs := vals(uhValues)
			at := idx(op.I)
			l.Insert(at, vs...)
			if at >= 0 && at <= n {
				m = append(append(append([]any{}, m[:at]...), vs...), m[at:]...)
			}
		case "remove":
			at := idx(op.I)
			l.Remove(at)
			if at >= 0 && at < n {
				m = append(append([]any{}, m[:at]...), m[at+1:]...)
			}
		case "set":
			at := idx(op.I)
			if len(op.Vs) == 0 {
				continue
			}
			v := vals(uhValues)[0]
			l.Set(at, v)
			if at >= 0 && at < n {
				m[at] = v
			} else if at == n {
				m = append(m, v)
			}
		case "swap":
			a, b := idx(op.I), idx(op.J)
			l.Swap(a, b)
			if a >= 0 && a < n && b >= 0 && b < n {
				m[a], m[b] = m[b], m[a]
			}
		case "contains":
			ps := vals(uhProbes)
			want := true
			for _, p := range ps {
				found := false
				for _, e := range m {
					if e == p { // p is a comparable scalar
						found = true
						break
					}
				}
				want = want && found
			}
			if got := l.Contains(ps...); got != want {
				return fail("Contains(%s) = %v, want %v", uhShow(ps), got, want)
			}
			if len(ps) >= 2 {
				multiProbe = true
			}
		case "indexof":
			if len(op.Vs) == 0 {
				continue
			}
			p := vals(uhProbes)[0]
			want := -1
			for j, e := range m {
				if e == p {
					want = j
					break
				}
			}
			if got := l.IndexOf(p); got != want {
				return fail("IndexOf(%s) = %d, want %d", uhShow([]any{p}), got, want)
			}
		case "get":
			at := idx(op.I)
			got, ok := l.Get(at)
			if in := at >= 0 && at < n; ok != in || in && !reflect.DeepEqual(got, m[at]) {
				return fail("Get(%d) = (%s,%v)", at, uhShow([]any{got}), ok)
			}
		}
		got := l.Values()
		if l.Size() != len(m) || len(got) != len(m) {
			return fail("Size()=%d, Values()=%s", l.Size(), uhShow(got))
		}
		for j := range m {
			if !reflect.DeepEqual(got[j], m[j]) {
				return fail("Values()=%s", uhShow(got))
			}
			switch m[j].(type) {
			case []any, map[string]any:
				nested = true
			}
		}
	}
	info.NonTrivial = multiProbe && nested
	return info, nil
}

func TestUnhashableElements(t *testing.T) {
	for _, kind := range []string{"arraylist", "singlylinkedlist", "doublylinkedlist"} {
		kind := kind
		pbt.Run(t, pbt.Target[UHCase]{Name: kind + "/any-unhashable-elements", Checks: 1200, Check: checkUnhashable, Gen: func(t *rapid.T) UHCase {
			step := rapid.Custom(func(t *rapid.T) UHOp {
				o := rapid.SampledFrom([]string{"add", "add", "load", "insert", "remove", "set", "swap", "contains", "contains", "contains", "indexof", "get"}).Draw(t, "o")
				op := UHOp{O: o, I: rapid.IntRange(0, 12).Draw(t, "i"), J: rapid.IntRange(0, 12).Draw(t, "j")}
				op.Vs = rapid.SliceOfN(rapid.IntRange(0, 11), 0, 5).Draw(t, "vs")
				return op
			})
			return UHCase{Kind: kind, Ops: rapid.SliceOfN(step, 1, 14).Draw(t, "ops")}
		}})
	}
}
